"""E0 -- source model of /repo/PEPit (core package), built from syntax trees only.

Nothing here imports or executes PEPit.  Every checker gets its facts from this model:
modules, classes (with resolved bases and MRO lookup), functions, import alias maps,
class-body attributes, and helpers to find statements / calls with their positions.
"""
import ast
import os
import hashlib

REPO = os.environ.get("VERIF_REPO", "/repo")
PKG = "PEPit"


class AnalysisError(Exception):
    """An anchor cannot be resolved or a construct is outside the analysed fragment (exit 2)."""


def strip_docstrings(tree):
    for n in ast.walk(tree):
        if isinstance(n, (ast.FunctionDef, ast.ClassDef, ast.Module, ast.AsyncFunctionDef)):
            if (n.body and isinstance(n.body[0], ast.Expr)
                    and isinstance(getattr(n.body[0], "value", None), ast.Constant)
                    and isinstance(n.body[0].value.value, str)):
                n.body = n.body[1:] or [ast.Pass(lineno=n.body[0].lineno, col_offset=0)]
    return tree


class _Canon(ast.NodeTransformer):
    """Spelling-independent form of two statement shapes (positions are kept):
       x = x + e   (plain name)           ->  x += e
       if not c: A else: B  (two arms)    ->  if c: B else: A      (elif chains are left alone)"""

    def visit_Assign(self, node):
        self.generic_visit(node)
        # a = b = <constant or name>   ->   a = v; b = v
        if len(node.targets) > 1 and isinstance(node.value, (ast.Constant, ast.Name)) and all(isinstance(t, (ast.Name, ast.Attribute)) for t in node.targets):
            return [self.visit_Assign(ast.copy_location(ast.Assign(targets=[t], value=clone(node.value)), node)) for t in node.targets]
        # a, b = x, y  with y not reading a   ->   a = x; b = y   (the right-hand side is evaluated before any store, so the split is exact only then)
        if len(node.targets) == 1 and isinstance(node.targets[0], ast.Tuple) and isinstance(node.value, ast.Tuple) \
                and len(node.targets[0].elts) == len(node.value.elts) >= 2 and all(isinstance(t, (ast.Name, ast.Attribute)) for t in node.targets[0].elts) \
                and not any(isinstance(x, ast.Starred) for x in node.value.elts):
            tg, vs = node.targets[0].elts, node.value.elts
            texts = [ast.unparse(t) for t in tg]
            safe = True
            for k in range(1, len(vs)):
                reads = {ast.unparse(n0) for n0 in ast.walk(vs[k]) if isinstance(n0, (ast.Name, ast.Attribute))}
                if any(t0 in reads for t0 in texts[:k]) or any(isinstance(n0, ast.Call) for n0 in ast.walk(vs[k])):
                    safe = False
            if any(isinstance(n0, ast.Call) for n0 in ast.walk(vs[0])) and len(vs) > 1 and any(not isinstance(v0, (ast.Constant, ast.Name, ast.Attribute, ast.BinOp)) for v0 in vs[1:]):
                safe = False
            if safe:
                out = []
                for t0, v0 in zip(tg, vs):
                    r0 = self.visit_Assign(ast.copy_location(ast.Assign(targets=[t0], value=v0), node))
                    out.extend(r0 if isinstance(r0, list) else [r0])
                return out
        # A.b = A.b + e   ->   A.b += e   (attribute chains, like plain names below)
        if len(node.targets) == 1 and isinstance(node.targets[0], ast.Attribute) and isinstance(node.value, ast.BinOp) \
                and isinstance(node.value.left, ast.Attribute) and ast.unparse(node.value.left) == ast.unparse(node.targets[0]) \
                and isinstance(node.value.op, (ast.Add, ast.Sub)):
            return ast.copy_location(ast.AugAssign(target=node.targets[0], op=node.value.op, value=node.value.right), node)
        if isinstance(node.value, ast.IfExp) and len(node.targets) == 1:
            v = node.value
            mk = lambda val: ast.copy_location(ast.Assign(targets=[clone(node.targets[0])], value=val), node)
            return ast.copy_location(ast.If(test=v.test, body=[mk(v.body)], orelse=[mk(v.orelse)]), node)
        inner = [n for n in ast.walk(node.value) if isinstance(n, ast.IfExp)]
        if len(inner) == 1 and len(node.targets) == 1 and not any(isinstance(n, (ast.Lambda, ast.ListComp, ast.DictComp, ast.SetComp, ast.GeneratorExp)) for n in ast.walk(node.value)):
            # one conditional sub-expression: lift it to a statement-level branch
            ife = inner[0]

            def with_branch(branch):
                class R(ast.NodeTransformer):
                    def visit_IfExp(self, n):
                        return clone(branch) if n is ife_copy[0] else n
                val = clone(node.value)
                ife_copy[0] = [n for n in ast.walk(val) if isinstance(n, ast.IfExp)][0]
                return R().visit(val)
            ife_copy = [None]
            a = with_branch(ife.body)
            b = with_branch(ife.orelse)
            mk = lambda val: ast.copy_location(ast.Assign(targets=[clone(node.targets[0])], value=val), node)
            return ast.copy_location(ast.If(test=clone(ife.test), body=[mk(a)], orelse=[mk(b)]), node)
        if len(node.targets) == 1 and isinstance(node.targets[0], ast.Name) and isinstance(node.value, ast.BinOp) \
                and isinstance(node.value.left, ast.Name) and node.value.left.id == node.targets[0].id \
                and isinstance(node.value.op, (ast.Add, ast.Sub, ast.Mult, ast.Div)):
            return ast.copy_location(ast.AugAssign(target=ast.Name(id=node.targets[0].id, ctx=ast.Store()), op=node.value.op, value=node.value.right), node)
        return node

    def visit_Expr(self, node):
        """`L.extend([a, b])`, `L.extend((a, b))`, `L.extend(map(f, (a, b)))` (literal sequences): the appends they abbreviate, in order"""
        self.generic_visit(node)
        c = node.value
        if isinstance(c, ast.Call) and isinstance(c.func, ast.Attribute) and c.func.attr == "extend" and len(c.args) == 1 and not c.keywords:
            a = c.args[0]
            items = None
            if isinstance(a, (ast.List, ast.Tuple)) and a.elts and not any(isinstance(x, ast.Starred) for x in a.elts):
                items = list(a.elts)
            elif isinstance(a, ast.Call) and isinstance(a.func, ast.Name) and a.func.id == "map" and len(a.args) == 2 and not a.keywords \
                    and isinstance(a.args[1], (ast.List, ast.Tuple)) and a.args[1].elts and not any(isinstance(x, ast.Starred) for x in a.args[1].elts) \
                    and isinstance(a.args[0], (ast.Name, ast.Attribute)):
                items = [ast.copy_location(ast.Call(func=clone(a.args[0]), args=[x], keywords=[]), node) for x in a.args[1].elts]
            if items is not None:
                return [ast.copy_location(ast.Expr(value=ast.copy_location(ast.Call(func=ast.Attribute(value=clone(c.func.value), attr="append", ctx=ast.Load()),
                                                                                     args=[x], keywords=[]), node)), node) for x in items]
        return node

    def visit_AugAssign(self, node):
        """`L += [a, b]` on an attribute / name: the same appends"""
        self.generic_visit(node)
        if isinstance(node.op, ast.Add) and isinstance(node.value, ast.List) and node.value.elts and isinstance(node.target, (ast.Attribute,)) \
                and not any(isinstance(x, ast.Starred) for x in node.value.elts):
            tgt = clone(node.target)
            for n0 in ast.walk(tgt):
                if hasattr(n0, "ctx"):
                    n0.ctx = ast.Load()
            return [ast.copy_location(ast.Expr(value=ast.copy_location(ast.Call(func=ast.Attribute(value=clone(tgt), attr="append", ctx=ast.Load()),
                                                                                 args=[x], keywords=[]), node)), node) for x in node.value.elts]
        return node

    def visit_Return(self, node):
        self.generic_visit(node)
        if isinstance(node.value, ast.IfExp):
            v = node.value
            return ast.copy_location(ast.If(test=v.test, body=[ast.copy_location(ast.Return(value=v.body), node)],
                                            orelse=[ast.copy_location(ast.Return(value=v.orelse), node)]), node)
        return node

    def visit_If(self, node):
        self.generic_visit(node)
        chain_member = getattr(node, "_in_chain", False) or (len(node.orelse) == 1 and isinstance(node.orelse[0], ast.If))
        if node.orelse and not chain_member and isinstance(node.test, ast.UnaryOp) and isinstance(node.test.op, ast.Not):
            return ast.copy_location(ast.If(test=node.test.operand, body=node.orelse, orelse=node.body), node)
        return node


def canonicalise(tree):
    for n in ast.walk(tree):
        if isinstance(n, ast.If) and len(n.orelse) == 1 and isinstance(n.orelse[0], ast.If):
            n.orelse[0]._in_chain = True
    tree = _Canon().visit(tree)
    ast.fix_missing_locations(tree)
    return tree


def set_parents(tree):
    for n in ast.walk(tree):
        for c in ast.iter_child_nodes(n):
            c._parent = n
    tree._parent = None
    return tree


class ClassInfo:
    def __init__(self, module, node):
        self.module = module
        self.node = node
        self.name = node.name
        self.methods = {}
        self.class_attrs = {}   # name -> value node (class-body assignments)
        self.base_exprs = node.bases
        self.bases = []         # resolved ClassInfo
        for st in node.body:
            if isinstance(st, ast.FunctionDef):
                self.methods[st.name] = st
                st._cls = self
                st._module = module
            elif isinstance(st, ast.Assign):
                for t in st.targets:
                    if isinstance(t, ast.Name):
                        self.class_attrs[t.id] = st.value
            elif isinstance(st, ast.AnnAssign) and isinstance(st.target, ast.Name) and st.value is not None:
                self.class_attrs[st.target.id] = st.value

    @property
    def qual(self):
        return "%s::%s" % (self.module.rel, self.name)

    def mro(self):
        seen, out, todo = set(), [], [self]
        while todo:
            c = todo.pop(0)
            if id(c) in seen:
                continue
            seen.add(id(c))
            out.append(c)
            todo.extend(c.bases)
        return out

    def find_method(self, name):
        for c in self.mro():
            if name in c.methods:
                return c.methods[name]
        return None

    def is_subclass_of(self, other):
        return any(c is other for c in self.mro())

    def __repr__(self):
        return "<class %s>" % self.qual


class ModuleInfo:
    def __init__(self, rel, path, src):
        self.rel = rel                      # e.g. PEPit/function.py
        self.path = path
        self.src = src
        self.tree = set_parents(canonicalise(strip_docstrings(ast.parse(src, filename=path))))
        self.modname = rel[:-3].replace("/", ".")
        if self.modname.endswith(".__init__"):
            self.modname = self.modname[: -len(".__init__")]
        self.classes = {}
        self.functions = {}
        self.imports = {}    # local name -> (module name, object name or None)
        self.globals = {}    # module-level assigned names -> value node
        for st in self.tree.body:
            if isinstance(st, ast.ClassDef):
                self.classes[st.name] = ClassInfo(self, st)
            elif isinstance(st, ast.FunctionDef):
                self.functions[st.name] = st
                st._cls = None
                st._module = self
            elif isinstance(st, ast.Assign):
                for t in st.targets:
                    if isinstance(t, ast.Name):
                        self.globals[t.id] = st.value
        for st in ast.walk(self.tree):
            if isinstance(st, ast.ImportFrom):
                base = st.module or ""
                if st.level:
                    pkg = self.modname.split(".")
                    if not rel.endswith("__init__.py"):
                        pkg = pkg[:-1]
                    pkg = pkg[: len(pkg) - (st.level - 1)]
                    base = ".".join(pkg + ([st.module] if st.module else []))
                for a in st.names:
                    self.imports[a.asname or a.name] = (base, a.name)
            elif isinstance(st, ast.Import):
                for a in st.names:
                    self.imports[a.asname or a.name.split(".")[0]] = (a.name, None)


class Repo:
    def __init__(self, root=None, include_examples=False):
        self.root = root or REPO
        self.modules = {}
        self.by_modname = {}
        pkgdir = os.path.join(self.root, PKG)
        if not os.path.isdir(pkgdir):
            raise AnalysisError("package directory %s not found" % pkgdir)
        for d, dirs, files in os.walk(pkgdir):
            dirs.sort()
            relx = os.path.relpath(d, self.root)
            if not include_examples and (relx + "/").startswith(PKG + "/examples/"):
                continue
            if "__pycache__" in d:
                continue
            for f in sorted(files):
                if f.endswith(".py"):
                    p = os.path.join(d, f)
                    rel = os.path.relpath(p, self.root)
                    with open(p, encoding="utf-8") as fh:
                        src = fh.read()
                    try:
                        m = ModuleInfo(rel, p, src)
                    except SyntaxError as e:
                        raise AnalysisError("cannot parse %s: %s" % (rel, e))
                    self.modules[rel] = m
                    m.repo = self
                    self.by_modname[m.modname] = m
        self._resolve_bases()
        for m in self.modules.values():          # `name = staticmethod(_function)` / `name = _function` in a class body: the function is a (static) method
            for c in m.classes.values():
                for a0, v0 in list(c.class_attrs.items()):
                    target = v0.args[0] if isinstance(v0, ast.Call) and isinstance(v0.func, ast.Name) and v0.func.id == "staticmethod" and len(v0.args) == 1 else None
                    tfn = None
                    if isinstance(target, ast.Name) and a0 not in c.methods:
                        tfn = m.functions.get(target.id)
                        if tfn is None and target.id in m.imports:
                            r0 = self.resolve_name(m, target.id)          # a function of another (private) module of the package
                            tfn = r0 if isinstance(r0, ast.FunctionDef) else None
                    if tfn is not None:
                        alias = clone(tfn)
                        alias.name = a0
                        alias.decorator_list = [ast.Name(id="staticmethod", ctx=ast.Load())]
                        alias._cls, alias._module = c, getattr(tfn, "_module", m)
                        set_parents(alias)
                        alias._parent = None
                        c.methods[a0] = alias
                    lam = target if isinstance(target, ast.Lambda) else (v0 if isinstance(v0, ast.Lambda) else None)
                    if lam is not None and a0 not in c.methods and not lam.args.vararg and not lam.args.kwarg:
                        # `name = staticmethod(lambda ...: e)` (or a plain lambda, then an instance method): a method whose body returns e
                        fd = ast.FunctionDef(name=a0, args=clone(lam.args), body=[ast.Return(value=clone(lam.body))],
                                             decorator_list=[ast.Name(id="staticmethod", ctx=ast.Load())] if target is lam else [], returns=None, type_comment=None)
                        try:
                            fd.type_params = []
                        except Exception:
                            pass
                        ast.copy_location(fd, v0)
                        ast.copy_location(fd.body[0], lam.body)
                        ast.fix_missing_locations(fd)
                        fd.end_lineno = getattr(v0, "end_lineno", getattr(v0, "lineno", None))
                        fd._cls, fd._module = c, m
                        set_parents(fd)
                        fd._parent = None
                        c.methods[a0] = fd
        for m in self.modules.values():          # nested functions belong to the module (and class) of the function they are written in
            for n0 in ast.walk(m.tree):
                if isinstance(n0, ast.FunctionDef) and getattr(n0, "_module", None) is None:
                    n0._module = m
                    if not hasattr(n0, "_cls"):
                        n0._cls = None
        # summaries by inlining: private helpers are folded into their callers before any rule looks at a function
        from .inline import inline_private_helpers
        self.inlined = inline_private_helpers(self)
        # classes whose `==` builds an object instead of answering a question (see sa/miniint.py)
        from . import miniint
        miniint.EQ_OBJECT_KINDS = {c.name for c in self.all_classes() if "__eq__" in c.methods
                                   and any(isinstance(r, ast.Return) and isinstance(r.value, ast.Call) for r in ast.walk(c.methods["__eq__"]))}
        if self.inlined:
            for m in self.modules.values():
                set_parents(m.tree)

    # -- resolution -----------------------------------------------------------------
    def resolve_name(self, module, name, depth=0):
        """Resolve a (possibly imported) global name to a ClassInfo / FunctionDef / ('global', module, node)."""
        if depth > 6:
            return None
        if name in module.classes:
            return module.classes[name]
        if name in module.functions:
            return module.functions[name]
        if name in module.globals and name not in module.imports:
            return ("global", module, module.globals[name])
        if name in module.imports:
            mod, obj = module.imports[name]
            target = self.by_modname.get(mod)
            if obj is None:
                return ("module", mod)
            if target is not None:
                r = self.resolve_name(target, obj, depth + 1)
                if r is not None:
                    return r
                sub = self.by_modname.get(mod + "." + obj)
                if sub is not None:
                    return ("module", sub.modname)
            return ("external", mod, obj)
        return None

    def _resolve_bases(self):
        for m in self.modules.values():
            for c in m.classes.values():
                for b in c.base_exprs:
                    if isinstance(b, ast.Name):
                        r = self.resolve_name(m, b.id)
                        if isinstance(r, ClassInfo):
                            c.bases.append(r)

    def all_classes(self):
        for m in self.modules.values():
            for c in m.classes.values():
                yield c

    def cls(self, name):
        found = [c for c in self.all_classes() if c.name == name]
        if len(found) != 1:
            raise AnalysisError("anchor class %s resolves to %d definitions" % (name, len(found)))
        return found[0]

    def subclasses(self, base, strict=True):
        return [c for c in self.all_classes() if c.is_subclass_of(base) and (not strict or c is not base)]

    def module(self, rel):
        if rel not in self.modules:
            raise AnalysisError("anchor module %s not found" % rel)
        return self.modules[rel]

    def method(self, clsname, meth):
        c = self.cls(clsname)
        f = c.find_method(meth)
        if f is None:
            raise AnalysisError("anchor method %s.%s not found" % (clsname, meth))
        return f

    def all_functions(self):
        for m in self.modules.values():
            for f in m.functions.values():
                yield f
            for c in m.classes.values():
                for f in c.methods.values():
                    yield f
                    for n in ast.walk(f):
                        if isinstance(n, ast.FunctionDef) and n is not f:
                            n._cls = c
                            n._module = m

    def digest(self):
        h = hashlib.sha256()
        for rel in sorted(self.modules):
            h.update(rel.encode())
            h.update(self.modules[rel].src.encode())
        return h.hexdigest()[:16]


# -- small syntax helpers -------------------------------------------------------------

def qualname(fn):
    c = getattr(fn, "_cls", None)
    return (c.name + "." if c else "") + fn.name


def loc(fn_or_module, node):
    m = getattr(fn_or_module, "_module", fn_or_module)
    return "%s:%d" % (m.rel, getattr(node, "lineno", 0))


def src(node):
    try:
        return ast.unparse(node)
    except Exception:
        return "<%s>" % type(node).__name__


def dotted(node):
    """a.b.c -> 'a.b.c' (None when not a pure attribute chain)."""
    parts = []
    while isinstance(node, ast.Attribute):
        parts.append(node.attr)
        node = node.value
    if isinstance(node, ast.Name):
        parts.append(node.id)
        return ".".join(reversed(parts))
    return None


def call_name(call):
    """Name of the called attribute / function ('append', 'send_constraint_to_solver', 'Point')."""
    f = call.func
    if isinstance(f, ast.Attribute):
        return f.attr
    if isinstance(f, ast.Name):
        return f.id
    return None


def calls_in(node, name=None):
    out = []
    for n in ast.walk(node):
        if isinstance(n, ast.Call) and (name is None or call_name(n) == name):
            out.append(n)
    return out


def enclosing_stmt(node):
    while node is not None and not isinstance(node, ast.stmt):
        node = getattr(node, "_parent", None)
    return node


def enclosing(node, kinds):
    node = getattr(node, "_parent", None)
    while node is not None and not isinstance(node, kinds):
        node = getattr(node, "_parent", None)
    return node


def block_of(stmt):
    """Return (parent node, field name, list) holding stmt."""
    p = getattr(stmt, "_parent", None)
    if p is None:
        return None
    for field in ("body", "orelse", "finalbody"):
        lst = getattr(p, field, None)
        if isinstance(lst, list) and any(s is stmt for s in lst):
            return p, field, lst
    if isinstance(p, ast.Try):
        for h in p.handlers:
            if any(s is stmt for s in h.body):
                return h, "body", h.body
    return None


def get_arg(call, pos, name):
    """Positional-or-keyword argument of a call (None if absent)."""
    for k in call.keywords:
        if k.arg == name:
            return k.value
    if pos is not None and pos < len(call.args) and not any(isinstance(a, ast.Starred) for a in call.args[: pos + 1]):
        return call.args[pos]
    return None


def params_of(fn):
    a = fn.args
    return [x.arg for x in a.posonlyargs + a.args]


def is_const(node, value=None):
    if not isinstance(node, ast.Constant):
        return False
    return value is None or (node.value == value and type(node.value) is type(value))


def norm_stmt(node):
    """Normalised statement text used in construct keys (never a line number)."""
    return " ".join(src(node).split())


def iter_base(it):
    """(iterated expression, enumerated?) for `X`, `enumerate(X)`, `enumerate(X, start=k)`, `enumerate(X, k)`."""
    if isinstance(it, ast.Call) and call_name(it) == "enumerate" and 1 <= len(it.args) <= 2 and all(k.arg == "start" for k in it.keywords):
        return it.args[0], True
    return it, False


def anon_src(node, keep=("self", "np", "pd")):
    """Source text of an expression with every local name replaced by `?` (construct keys must not depend on local names)."""
    n2 = clone(node)
    for x in ast.walk(n2):
        if isinstance(x, ast.Name) and x.id not in keep:
            x.id = "?"
    return src(n2)


def clone(node):
    """Copy of a syntax tree that does not follow the `_parent` back-pointers (copy.deepcopy would copy the whole module)."""
    if isinstance(node, list):
        return [clone(x) for x in node]
    if not isinstance(node, ast.AST):
        return node
    new = type(node)()
    for f in node._fields:
        if hasattr(node, f):
            setattr(new, f, clone(getattr(node, f)))
    for a in ("lineno", "col_offset", "end_lineno", "end_col_offset"):
        if hasattr(node, a):
            setattr(new, a, getattr(node, a))
    return new
