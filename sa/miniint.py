"""Concrete unrolling of small pure index programs.

Some properties hang on a few lines of integer bookkeeping (the unpacking of MOSEK's packed lower triangle, the coefficient that couples entry
(i, j) of an LMI to its matrix variable, the counters of a dual-recovery loop).  Those lines have no input but a small size parameter, so they are
decided by *unrolling them for the first few sizes* with an interpreter of the Python subset they are written in: integers, tuples, lists,
comprehensions, range / enumerate / zip / itertools.product, conditional expressions, chained and tuple assignments.  Everything that is not index
arithmetic stays symbolic: reading `A[k]` of a named symbolic array yields the token ("read", A, k); writing `M[a, b] = v` into a matrix is recorded;
calls of unknown functions yield ("call", text).  A construct outside the subset raises AnalysisError (the check then ends as analysis error,
never as a silent pass)."""
import ast
import os
import itertools
from .model import AnalysisError, src, dotted, call_name, norm_stmt


# kinds of symbolic objects whose class defines `__eq__` to *build an object* (PEPit: Expression.__eq__ returns a Constraint): `a == b` involving
# one of them is truthy whatever a and b are, `a != b` is falsy, and list membership / list.remove / list.index find "a match" at the first
# element of such a kind.  Filled by sa/model.py from the analysed tree (empty when the tree defines no such `__eq__`).
EQ_OBJECT_KINDS = set()


def _eq_builds_object(x):
    return isinstance(x, SymObj) and x.kind in EQ_OBJECT_KINDS


TOKENS = ("read", "call", "array", "attr", "op", "neg", "entry", "obj", "symmat", "tr", "slice", "matrix", "type", "cmp")


def is_token(v):
    return isinstance(v, tuple) and len(v) > 0 and isinstance(v[0], str) and v[0] in TOKENS


class Matrix:
    """An array created by zeros / empty: entries default to 0 (reads of an entry never written give 0), writes are logged in order."""

    def __init__(self, name, shape=None):
        self.name = name
        self.shape = shape
        self.writes = {}
        self.order = []

    def get(self, idx):
        return self.writes.get(idx, 0)

    def copy_with(self, f, shape=None):
        m = Matrix(self.name, shape if shape is not None else self.shape)
        for k, v in self.writes.items():
            kk, vv = f(k, v)
            m.writes[kk] = vv
        return m


class SymObj:
    """A symbolic object of the analysed program (a leaf point, a leaf expression, ...): attributes in .attrs, identity semantics."""

    def __init__(self, kind, **attrs):
        self.kind = kind
        self.attrs = attrs

    def __repr__(self):
        return "<%s %s>" % (self.kind, self.attrs.get("label", ""))


class VecObj(SymObj):
    """A symbolic point / expression that also has a value in the vector-space calculus of sa/nf.py (.val: PointV or ExprV)."""

    def __init__(self, kind, val, **attrs):
        super().__init__(kind, **attrs)
        self.val = val

    def __repr__(self):
        return "<%s %s>" % (self.kind, self.val)


def _is_rat(x):
    return type(x).__name__ == "Rat"


def _deep_eq(a, b):
    """== of containers whose leaves may be exact rationals (which compare by value here, generic symbols being equal only to themselves)"""
    if _is_rat(a) or _is_rat(b):
        try:
            d = a - b
            return d.is_zero() if _is_rat(d) else d == 0
        except Exception:
            return False
    if isinstance(a, dict) and isinstance(b, dict):
        return a.keys() == b.keys() and all(_deep_eq(a[k], b[k]) for k in a)
    if isinstance(a, (list, tuple)) and isinstance(b, (list, tuple)) and type(a) is type(b):
        return len(a) == len(b) and all(_deep_eq(x, y) for x, y in zip(a, b))
    return a == b


class ProgramRaise(AnalysisError):
    """The interpreted program raises: .exc is the name of the exception class (as far as it is known), the message keeps the historical text
    'the index program raises: ...' that callers test for."""

    def __init__(self, exc, text):
        super().__init__("the index program raises: %s" % text)
        self.exc = exc


def _module_constant(module, name):
    """value node of a module-level `NAME = <literal table>` (assigned exactly once at module level)"""
    tree = getattr(module, "tree", None)
    if tree is None:
        return None
    hits = [st.value for st in tree.body if isinstance(st, ast.Assign) and len(st.targets) == 1 and isinstance(st.targets[0], ast.Name) and st.targets[0].id == name]
    for st in tree.body:
        # `A, B, C = range(3)` / `A, B = "a", "b"`: the member of the unpacked value at the position of the name
        if isinstance(st, ast.Assign) and len(st.targets) == 1 and isinstance(st.targets[0], (ast.Tuple, ast.List)) \
                and all(isinstance(t, ast.Name) for t in st.targets[0].elts):
            for k, t in enumerate(st.targets[0].elts):
                if t.id == name:
                    node = ast.Subscript(value=ast.Call(func=ast.Name(id="list", ctx=ast.Load()), args=[st.value], keywords=[]),
                                         slice=ast.Constant(value=k), ctx=ast.Load())
                    hits.append(ast.fix_missing_locations(ast.copy_location(node, st)))
    return hits[0] if len(hits) == 1 else None


class NTClass:
    """a collections.namedtuple class created by the interpreted program"""

    def __init__(self, name, fields):
        self.name, self.fields = name, list(fields)

    def __repr__(self):
        return "<namedtuple %s>" % self.name


class Closure:
    """a nested `def` or a lambda of the interpreted program: called with the variables of the enclosing run in view"""

    def __init__(self, node):
        self.node = node

    def __repr__(self):
        return "<closure %s>" % getattr(self.node, "name", "lambda")


def _own_nodes(stmts):
    """nodes of a function body, nested function definitions and lambdas left out"""
    skip = (ast.FunctionDef, ast.AsyncFunctionDef, ast.Lambda, ast.ClassDef)
    stack = [n for n in stmts if not isinstance(n, skip)]
    while stack:
        n = stack.pop()
        yield n
        for c in ast.iter_child_nodes(n):
            if not isinstance(c, (ast.FunctionDef, ast.AsyncFunctionDef, ast.Lambda, ast.ClassDef)):
                stack.append(c)


_YIELD_CACHE = {}


def _has_yield(stmts):
    if not stmts:
        return False
    k = id(stmts[0])
    if k not in _YIELD_CACHE:
        _YIELD_CACHE[k] = (stmts[0], any(isinstance(n, (ast.Yield, ast.YieldFrom)) for n in _own_nodes(stmts)))
    return _YIELD_CACHE[k][1]


def _generator_effect(stmts):
    """first statement of a generator body that does more than read, compute locals and yield (None: none)"""
    for n in _own_nodes(stmts):
        if isinstance(n, ast.Expr) and isinstance(n.value, ast.Call) and call_name(n.value) != "print":
            return n
        if isinstance(n, (ast.Assign, ast.AugAssign, ast.AnnAssign)):
            for t in (n.targets if isinstance(n, ast.Assign) else [n.target]):
                if any(isinstance(x, (ast.Attribute, ast.Subscript)) for x in ast.walk(t)):
                    return n
        if isinstance(n, (ast.Global, ast.Nonlocal, ast.Delete)):
            return n
    return None


_STRICT_CONSUMERS = {"sum", "list", "tuple", "sorted", "max", "min", "set", "frozenset", "dict", "join", "extend", "array", "fromkeys", "update", "len"}


class GenObj:
    """The value of a call of a generator function.  Its body is run -- once, to the end -- when the value is first iterated; a second iteration
    yields nothing, as with a real generator.  Running it to the end at that moment is what Python does when the consumer is a function that
    exhausts its argument before doing anything else (sum, list, sorted ...); when the consumer is a loop, it is the same thing as long as the
    generator only reads (a generator with effects of its own consumed by a loop is outside the fragment: the interleaving is not modelled)."""

    def __init__(self, interp, stmts, effect):
        self.interp, self.stmts, self.effect = interp, stmts, effect
        self.consumed = False

    def take(self, consumer):
        if self.consumed:
            return []
        self.consumed = True
        sub = self.interp
        sub.steps = consumer.steps
        prev = sub.__dict__.get("_yield_sink")
        sub._yield_sink = []
        try:
            try:
                sub._block(self.stmts)
            except _Return:
                pass
            items = sub._yield_sink
        finally:
            sub._yield_sink = prev
            consumer.steps = sub.steps
        if sub is not consumer:
            for k0, v0 in sub.env.items():
                if "." in k0:
                    consumer.env[k0] = v0
        return items


class CountObj:
    """itertools.count(start, step)"""

    def __init__(self, start=0, step=1):
        self.n, self.step = start, step


class IterObj:
    """iter(<finite iterable>): what has not been taken yet"""

    def __init__(self, items):
        self.items = list(items)


class _Return(Exception):
    def __init__(self, value):
        self.value = value


class _Continue(Exception):
    pass


class _Break(Exception):
    pass


_OPERATOR_CMP = {"le": ast.LtE, "ge": ast.GtE, "lt": ast.Lt, "gt": ast.Gt, "eq": ast.Eq, "ne": ast.NotEq}
_OPERATOR_FUNCS = {"add": (ast.Add, ("__op_a", "__op_b")), "iadd": (ast.Add, ("__op_a", "__op_b")), "sub": (ast.Sub, ("__op_a", "__op_b")),
                   "isub": (ast.Sub, ("__op_a", "__op_b")), "mul": (ast.Mult, ("__op_a", "__op_b")), "imul": (ast.Mult, ("__op_a", "__op_b")),
                   "truediv": (ast.Div, ("__op_a", "__op_b")), "itruediv": (ast.Div, ("__op_a", "__op_b")), "neg": (ast.USub, ("__op_a",))}
_EXC_PARENTS = {"KeyError": ("LookupError",), "IndexError": ("LookupError",), "ZeroDivisionError": ("ArithmeticError",),
                "StopIteration": (), "AssertionError": (), "ValueError": (), "TypeError": (), "AttributeError": (), "NotImplementedError": ("RuntimeError",)}


class IndexInterp:
    MAX_STEPS = 20000

    def __init__(self, env=None, symbolic=(), on_call=None, check_asserts=False):
        self.check_asserts = check_asserts
        self.env = dict(env or {})
        self.symbolic = set(symbolic)       # names of arrays whose contents are symbolic
        self.on_call = on_call              # callback(node, interp) -> value or NotImplemented
        self.on_compare = None              # callback(left, op name, right, node) -> value or NotImplemented (comparisons that build objects)
        self.symbolic_truth = None          # truth value given to a symbolic test (None: such a test is outside the fragment)
        self.steps = 0
        self.matrices = []
        self.events = []                    # statement-level calls (ast.Expr of a Call) with evaluated arguments
        self.home = None                    # (repo, module, class name or None): when set, calls of *private* helpers of the package that
        self.depth = 0                      # on_call does not model are followed into their bodies (bound: 4 levels)

    # ------------------------------------------------------------------ expressions
    def ev(self, e):
        self.steps += 1
        if self.steps > self.MAX_STEPS:
            raise AnalysisError("index program does not terminate within the unrolling budget")
        if isinstance(e, ast.Constant):
            return e.value
        if isinstance(e, ast.Name):
            if e.id in self.env:
                return self.env[e.id]
            if e.id in self.symbolic:
                return ("array", e.id)
            if e.id in ("str", "int", "float", "bool", "list", "tuple", "dict", "set", "frozenset", "complex", "bytes"):
                return ("type", e.id)          # a built-in type used as a value (isinstance tests)
            if (e.id in _OPERATOR_FUNCS or e.id in _OPERATOR_CMP) and self.home is not None and self.home[1] is not None \
                    and self.home[1].imports.get(e.id, (None, None))[0] == "operator":
                return ("attr", "operator." + e.id)          # `from operator import add`
            if self.home is not None and self.home[1] is not None and e.id in getattr(self.home[1], "functions", {}):
                return Closure(self.home[1].functions[e.id])          # a function of the module, held as a value (a table of handlers, a callback)
            if self.home is not None and self.home[1] is not None and e.id in getattr(self.home[1], "imports", {}) and self.home[0] is not None:
                r0 = self.home[0].resolve_name(self.home[1], e.id)          # a name imported from another module of the package
                if isinstance(r0, ast.FunctionDef):
                    return Closure(r0)
                if isinstance(r0, tuple) and r0 and r0[0] == "global" and len(r0) == 3:
                    sub = IndexInterp({})
                    sub.home = (self.home[0], r0[1], None)
                    val = sub.ev(r0[2])
                    self.env[e.id] = val
                    return val
            if self.home is not None and self.home[1] is not None:
                v0 = _module_constant(self.home[1], e.id)
                if v0 is not None:
                    sub = IndexInterp({})
                    sub.home = self.home
                    val = sub.ev(v0)
                    self.env[e.id] = val
                    return val
            raise AnalysisError("unbound name `%s` in an index program" % e.id)
        if isinstance(e, ast.Tuple):
            return tuple(self.ev(x) for x in e.elts)
        if isinstance(e, ast.List):
            return [self.ev(x) for x in e.elts]
        if isinstance(e, ast.Set):
            return [self.ev(x) for x in e.elts]          # membership tests and (order-insensitive) uses only
        if isinstance(e, ast.Dict):
            out = {}
            for k, v in zip(e.keys, e.values):
                if k is None:
                    d0 = self.ev(v)          # {**a, **b}
                    if not isinstance(d0, dict):
                        raise AnalysisError("`**` of something that is not a dict in `%s`" % src(e)[:60])
                    out.update(d0)
                    continue
                kk = self.ev(k)
                try:
                    hash(kk)
                except TypeError:
                    raise AnalysisError("unhashable key in `%s`" % src(e)[:60])
                out[kk] = self.ev(v)
            return out
        if isinstance(e, ast.DictComp) and len(e.generators) >= 1:
            out = {}
            self._comp(e.generators, 0, lambda: out.__setitem__(self.ev(e.key), self.ev(e.value)))
            return out
        if isinstance(e, ast.UnaryOp):
            v = self.ev(e.operand)
            if isinstance(e.op, ast.USub):
                if isinstance(v, VecObj):
                    return VecObj(v.kind, -v.val)
                if _is_rat(v):
                    return -v
                return -v if isinstance(v, (int, float)) else ("neg", v)
            if isinstance(e.op, ast.UAdd):
                return v
            if isinstance(e.op, ast.Not):
                return not self.truth(v)
        if isinstance(e, ast.BinOp):
            a, b = self.ev(e.left), self.ev(e.right)
            num = lambda x: isinstance(x, (int, float)) and not isinstance(x, str)
            if num(a) and num(b):
                try:
                    return {ast.Add: lambda: a + b, ast.Sub: lambda: a - b, ast.Mult: lambda: a * b, ast.FloorDiv: lambda: a // b,
                            ast.Mod: lambda: a % b, ast.Div: lambda: a / b, ast.Pow: lambda: a ** b}[type(e.op)]()
                except (KeyError, ZeroDivisionError):
                    raise AnalysisError("arithmetic `%s`" % src(e))
            if (isinstance(a, VecObj) or isinstance(b, VecObj)) and isinstance(e.op, ast.Add) and (a == 0 and isinstance(a, int) or b == 0 and isinstance(b, int)):
                return b if isinstance(b, VecObj) else a          # sum(...) starting from the integer 0
            if isinstance(e.op, ast.Add) and ((isinstance(a, Matrix) and not a.writes and isinstance(b, VecObj)) or (isinstance(b, Matrix) and not b.writes and isinstance(a, VecObj))):
                return b if isinstance(b, VecObj) else a          # an array of zeros is the neutral element of the sum of vectors
            if isinstance(e.op, ast.Sub) and isinstance(a, Matrix) and not a.writes and isinstance(b, VecObj):
                return VecObj(b.kind, -b.val)
            if isinstance(e.op, ast.Sub) and isinstance(b, Matrix) and not b.writes and isinstance(a, VecObj):
                return a
            if isinstance(a, VecObj) or isinstance(b, VecObj):
                from .nf import v_add, v_sub, v_mul, v_div, Rat, SortError, PointV
                from fractions import Fraction
                un = lambda x: x.val if isinstance(x, VecObj) else (Rat(Fraction(repr(x))) if isinstance(x, float) else (Rat(x) if isinstance(x, int) else x))
                try:
                    if isinstance(e.op, ast.Pow):
                        ub = un(b)
                        if not (type(ub).__name__ == "Rat" and ub.is_number() and ub.number() == 2):
                            raise SortError("power %s of a point / expression" % (b,))
                        r = v_mul(un(a), un(a))
                    else:
                        r = {ast.Add: v_add, ast.Sub: v_sub, ast.Mult: v_mul, ast.Div: v_div}[type(e.op)](un(a), un(b))
                except (KeyError, SortError) as ex:
                    raise AnalysisError("`%s`: %s" % (src(e)[:60], ex))
                if _is_rat(r):
                    return r
                return VecObj("Point" if isinstance(r, PointV) else "Expression", r)
            if isinstance(e.op, ast.Pow) and _is_rat(a) and (isinstance(b, int) and not isinstance(b, bool) and 0 <= b <= 6 or _is_rat(b) and b.is_number() and b.number() in (0, 1, 2, 3, 4)):
                k0 = b if isinstance(b, int) else int(b.number())
                r0 = a / a if k0 == 0 else a
                for _ in range(k0 - 1):
                    r0 = r0 * a
                return r0
            if (_is_rat(a) or _is_rat(b)) and (num(a) or _is_rat(a)) and (num(b) or _is_rat(b)):
                from fractions import Fraction
                fa = Fraction(repr(a)) if isinstance(a, float) else a
                fb = Fraction(repr(b)) if isinstance(b, float) else b
                try:
                    return {ast.Add: lambda: fa + fb, ast.Sub: lambda: fa - fb, ast.Mult: lambda: fa * fb, ast.Div: lambda: fa / fb}[type(e.op)]()
                except KeyError:
                    raise AnalysisError("arithmetic `%s`" % src(e))
            if isinstance(a, Matrix) or isinstance(b, Matrix):
                return self._matrix_op(e, a, b)
            if isinstance(a, list) and isinstance(b, list) and isinstance(e.op, ast.Add):
                return a + b
            if isinstance(a, tuple) and isinstance(b, tuple) and isinstance(e.op, ast.Add) and not is_token(a) and not is_token(b):
                return a + b
            return ("op", type(e.op).__name__, a, b)
        if isinstance(e, ast.Compare):
            left = self.ev(e.left)
            for op, r in zip(e.ops, e.comparators):
                right = self.ev(r)
                if self.on_compare is not None and len(e.ops) == 1 and (isinstance(left, SymObj) or isinstance(right, SymObj)) \
                        and isinstance(op, (ast.LtE, ast.GtE, ast.Lt, ast.Gt, ast.Eq)):
                    res = self.on_compare(left, type(op).__name__, right, e)
                    if res is not NotImplemented:
                        return res
                if isinstance(op, (ast.Eq, ast.NotEq)) and (_eq_builds_object(left) or _eq_builds_object(right)) and left is not right:
                    if len(e.ops) == 1:
                        return SymObj("Constraint", label="built by __eq__") if isinstance(op, ast.Eq) else False
                    if isinstance(op, ast.NotEq):
                        return False
                    left = right
                    continue
                if isinstance(op, (ast.In, ast.NotIn)) and isinstance(right, (list, tuple)) and not is_token(right) and \
                        (_eq_builds_object(left) or any(_eq_builds_object(x) for x in right)):
                    found = False
                    for x in right:
                        if x is left or _eq_builds_object(left) or _eq_builds_object(x):
                            found = True
                            break
                        try:
                            if x == left:
                                found = True
                                break
                        except Exception:
                            pass
                    if found != isinstance(op, ast.In):
                        return False
                    left = right
                    continue
                if isinstance(op, (ast.Eq, ast.NotEq)) and isinstance(left, (dict, list, tuple)) and isinstance(right, (dict, list, tuple)) \
                        and not is_token(left) and not is_token(right) and type(left) is type(right):
                    same = _deep_eq(left, right)
                    if same != isinstance(op, ast.Eq):
                        return False
                    left = right
                    continue
                if len(e.ops) == 1 and isinstance(op, (ast.Eq, ast.LtE, ast.GtE, ast.Lt, ast.Gt)) and \
                        any(is_token(x) and x[0] in ("read", "call", "op", "neg", "tr", "entry") for x in (left, right)):
                    return ("cmp", type(op).__name__, left, right)          # a comparison of symbolic values builds a symbolic relation
                if (_is_rat(left) or _is_rat(right)) and isinstance(op, (ast.Eq, ast.NotEq)) and all(_is_rat(x) or isinstance(x, (int, float)) for x in (left, right)):
                    # exact rationals: a symbolic weight is generic (equal to nothing but itself); Rat(0) == 0
                    from fractions import Fraction
                    conv = lambda x: Fraction(repr(x)) if isinstance(x, float) else x
                    same = (conv(left) - conv(right)).is_zero() if _is_rat(conv(left) - conv(right)) else conv(left) == conv(right)
                    if same != isinstance(op, ast.Eq):
                        return False
                    left = right
                    continue
                if isinstance(op, (ast.Is, ast.IsNot)) and is_token(left) and is_token(right) and left[0] == "type" and right[0] == "type":
                    if (left == right) != isinstance(op, ast.Is):          # a class is one object: `type(x) is C` is `type(x) == C`
                        return False
                    left = right
                    continue
                if (_is_rat(left) or _is_rat(right)) and isinstance(op, (ast.Lt, ast.LtE, ast.Gt, ast.GtE)):
                    raise AnalysisError("ordering of a symbolic weight in `%s`" % src(e))
                try:
                    ok = {ast.Eq: lambda: left == right, ast.NotEq: lambda: left != right, ast.Lt: lambda: left < right, ast.LtE: lambda: left <= right,
                          ast.Gt: lambda: left > right, ast.GtE: lambda: left >= right, ast.In: lambda: left in right, ast.NotIn: lambda: left not in right,
                          ast.Is: lambda: left is right, ast.IsNot: lambda: left is not right}[type(op)]()
                except TypeError:
                    raise AnalysisError("comparison `%s` on symbolic values" % src(e))
                if not ok:
                    return False
                left = right
            return True
        if isinstance(e, ast.BoolOp):
            if isinstance(e.op, ast.And):
                v = True
                for x in e.values:
                    v = self.ev(x)
                    if not self.truth(v):
                        return v
                return v
            v = False
            for x in e.values:
                v = self.ev(x)
                if self.truth(v):
                    return v
            return v
        if isinstance(e, ast.IfExp):
            return self.ev(e.body) if self.truth(self.ev(e.test)) else self.ev(e.orelse)
        if isinstance(e, (ast.ListComp, ast.GeneratorExp)):
            out = []
            self._comp(e.generators, 0, lambda: out.append(self.ev(e.elt)))
            return out
        if isinstance(e, ast.Slice):
            return ("slice", self.ev(e.lower) if e.lower is not None else None, self.ev(e.upper) if e.upper is not None else None,
                    self.ev(e.step) if e.step is not None else None)
        if isinstance(e, ast.Subscript):
            base = self.ev(e.value)
            idx = self.ev(e.slice)
            if isinstance(base, SymObj) and getattr(base, "nt_fields", None) is not None and isinstance(idx, int) and -len(base.nt_fields) <= idx < len(base.nt_fields):
                return base.attrs[base.nt_fields[idx]]
            if is_token(base) and base[0] != "array":
                return ("read", base, idx)
            if isinstance(base, tuple) and len(base) == 2 and base[0] == "array":
                return ("read", base[1], idx)
            if isinstance(base, Matrix):
                if isinstance(idx, int) or (isinstance(idx, tuple) and all(isinstance(x, int) for x in idx)):
                    return base.get(idx)
                return ("entry", base.name, idx)
            if isinstance(base, dict):
                if idx in base:
                    return base[idx]
                raise ProgramRaise("KeyError", "KeyError `%s`" % src(e)[:60])
            if isinstance(base, str) and (isinstance(idx, int) or (is_token(idx) and idx[0] == "slice" and all(x is None or isinstance(x, int) for x in idx[1:]))):
                try:
                    return base[idx] if isinstance(idx, int) else base[slice(idx[1], idx[2], idx[3])]
                except IndexError:
                    raise AnalysisError("index out of range in `%s`" % src(e))
            if isinstance(base, (list, tuple)) and not is_token(base) and is_token(idx) and idx[0] == "slice" \
                    and all(x is None or isinstance(x, int) for x in idx[1:]):
                return base[slice(idx[1], idx[2], idx[3])]
            if isinstance(base, (list, tuple)) and isinstance(idx, int):
                try:
                    return base[idx]
                except IndexError:
                    raise AnalysisError("index %d out of range in `%s`" % (idx, src(e)))
            return ("read", base, idx)
        if isinstance(e, ast.Attribute):
            d = dotted(e)
            if d and d in self.env:
                return self.env[d]
            if isinstance(e.value, (ast.Name, ast.Attribute, ast.Subscript)):
                try:
                    base = self.ev(e.value) if not (isinstance(e.value, ast.Name) and e.value.id not in self.env and e.value.id not in self.symbolic) else None
                except AnalysisError:
                    base = None
                if isinstance(base, SymObj):
                    if e.attr in base.attrs:
                        return base.attrs[e.attr]
                    raise AnalysisError("attribute `%s` of a symbolic %s" % (e.attr, base.kind))
                if is_token(base) and base[0] == "attr" and isinstance(base[1], str):
                    return ("attr", base[1] + "." + e.attr)        # attribute of a local alias of an attribute chain (task = self.task; task.putbaraij)
                if isinstance(base, Matrix):
                    if e.attr == "T":
                        return base.copy_with(lambda k, v: ((k[1], k[0]) if isinstance(k, tuple) and len(k) == 2 else k, v),
                                              shape=tuple(reversed(base.shape)) if isinstance(base.shape, tuple) else base.shape)
                    if e.attr == "shape":
                        return base.shape
            return ("attr", d or src(e))
        if isinstance(e, ast.Call):
            return self._call(e)
        if isinstance(e, ast.Lambda):
            return Closure(e)
        if isinstance(e, ast.NamedExpr) and isinstance(e.target, ast.Name):
            v = self.ev(e.value)
            self.env[e.target.id] = v
            return v
        if isinstance(e, ast.JoinedStr):
            parts = []
            for v in e.values:
                if isinstance(v, ast.Constant):
                    parts.append(str(v.value))
                elif isinstance(v, ast.FormattedValue):
                    x = self.ev(v.value)
                    parts.append(x if isinstance(x, str) else ("None" if x is None else (str(x) if isinstance(x, (int, float)) else "<%s>" % type(x).__name__)))
            return "".join(parts)
        raise AnalysisError("expression `%s` outside the index-program fragment" % src(e)[:60])

    def _matrix_op(self, e, a, b):
        from fractions import Fraction
        conv = lambda x: Fraction(repr(x)) if isinstance(x, float) else x
        ops = {ast.Add: lambda x, y: x + y, ast.Sub: lambda x, y: x - y, ast.Mult: lambda x, y: x * y, ast.Div: lambda x, y: x / y}
        if type(e.op) not in ops:
            raise AnalysisError("array arithmetic `%s`" % src(e))
        plain = ops[type(e.op)]

        def f(x, y):
            if isinstance(x, SymObj) or isinstance(y, SymObj):
                # entries that are points / expressions of the calculus: the entry-wise operation is the interpreter's own arithmetic
                self.env["__m_x"], self.env["__m_y"] = x, y
                try:
                    return self.ev(ast.BinOp(left=ast.Name(id="__m_x", ctx=ast.Load()), op=type(e.op)(), right=ast.Name(id="__m_y", ctx=ast.Load())))
                finally:
                    self.env.pop("__m_x", None)
                    self.env.pop("__m_y", None)
            return plain(x, y)
        if not (isinstance(a, Matrix) and isinstance(b, Matrix)) and isinstance(e.op, (ast.Add, ast.Sub)):
            return ("op", type(e.op).__name__, a, b)        # scalar broadcast over an array: kept symbolic
        if isinstance(a, Matrix) and isinstance(b, Matrix):
            if not isinstance(e.op, (ast.Add, ast.Sub)):
                raise AnalysisError("array arithmetic `%s`" % src(e))
            m = Matrix(a.name, a.shape)
            for k in set(a.writes) | set(b.writes):
                m.writes[k] = f(conv(a.get(k)), conv(b.get(k)))
            return m
        if isinstance(a, Matrix):
            if not ((isinstance(b, (int, float)) or _is_rat(b)) and isinstance(e.op, (ast.Mult, ast.Div))):
                raise AnalysisError("array arithmetic `%s`" % src(e))
            return a.copy_with(lambda k, v: (k, f(conv(v), conv(b))))
        if not ((isinstance(a, (int, float)) or _is_rat(a)) and isinstance(e.op, ast.Mult)):
            raise AnalysisError("array arithmetic `%s`" % src(e))
        return b.copy_with(lambda k, v: (k, f(conv(a), conv(v))))

    def truth(self, v):
        if _is_rat(v):
            return not v.is_zero()
        if isinstance(v, Matrix) or is_token(v):
            if self.symbolic_truth is not None:
                return self.symbolic_truth          # tests on symbolic numbers that only steer diagnostics: the caller says which way to go
            raise AnalysisError("truth value of the symbolic `%r`" % (v,))
        return bool(v)

    def _comp(self, gens, k, emit):
        if k == len(gens):
            emit()
            return
        g = gens[k]
        for v in self._iterate(self.ev(g.iter), g.iter):
            self._bind(g.target, v)
            if all(self.truth(self.ev(c)) for c in g.ifs):
                self._comp(gens, k + 1, emit)

    def _iterate(self, v, node):
        if isinstance(v, IterObj):
            items, v.items = v.items, []
            return items
        if isinstance(v, CountObj):
            raise AnalysisError("iteration over an endless counter in `%s`" % src(node)[:60])
        if isinstance(v, GenObj):
            if v.effect is not None and not (isinstance(node, ast.Call) and call_name(node) in _STRICT_CONSUMERS):
                raise AnalysisError("generator function with an effect of its own (`%s`) consumed step by step: the interleaving is outside the "
                                    "index-program fragment" % norm_stmt(v.effect)[:50])
            return v.take(self)
        if isinstance(v, SymObj) and getattr(v, "nt_fields", None) is not None:
            return [v.attrs[f0] for f0 in v.nt_fields]
        if isinstance(v, dict):
            return list(v.keys())
        if isinstance(v, frozenset) and len(v) <= 1:
            return list(v)
        if isinstance(v, (list, tuple, range)) and not is_token(v):
            return list(v)
        raise AnalysisError("iteration over `%s` outside the index-program fragment" % src(node)[:60])

    def callee_text(self, func):
        """dotted text of the callee with local aliases of attribute chains resolved (`put = self.task.putbaraij; put(...)` -> 'self.task.putbaraij')"""
        if isinstance(func, ast.Name):
            v = self.env.get(func.id)
            if is_token(v) and v[0] == "attr" and isinstance(v[1], str):
                return v[1]
            return func.id
        if isinstance(func, ast.Attribute):
            try:
                v = self.ev(func)
            except AnalysisError:
                v = None
            if is_token(v) and v[0] == "attr" and isinstance(v[1], str):
                return v[1]
            return dotted(func) or src(func)
        return src(func)

    def _call(self, e):
        nm = call_name(e)
        if self.on_call is not None:
            r = self.on_call(e, self)
            if r is not NotImplemented:
                return r
        if isinstance(e.func, ast.Name) and e.func.id in self.env and len(e.args) == 1 and not e.keywords:
            mc = self._operator_caller(self.env[e.func.id])
            if mc is not None:
                return mc(self.ev(e.args[0]))
        if nm == "namedtuple" and len(e.args) >= 2:
            n0, f0 = self.ev(e.args[0]), self.ev(e.args[1])
            if isinstance(n0, str) and (isinstance(f0, str) or (isinstance(f0, (list, tuple)) and all(isinstance(x, str) for x in f0))):
                return NTClass(n0, f0.replace(",", " ").split() if isinstance(f0, str) else list(f0))
        if isinstance(e.func, ast.Name):
            try:
                callee = self.ev(e.func) if (e.func.id in self.env or self.home is not None) else None
            except AnalysisError:
                callee = None
            if isinstance(callee, NTClass):
                vals = self.call_args(e)
                kws = {k.arg: self.ev(k.value) for k in e.keywords if k.arg}
                if len(vals) + len(kws) != len(callee.fields) or any(k0 not in callee.fields for k0 in kws):
                    raise ProgramRaise("TypeError", "`%s`: wrong fields for the namedtuple %s" % (src(e)[:50], callee.name))
                attrs = dict(zip(callee.fields, vals))
                attrs.update(kws)
                o = SymObj(callee.name, **attrs)
                o.nt_fields = list(callee.fields)
                return o
        if isinstance(e.func, ast.Name) and isinstance(self.env.get(e.func.id), Closure):
            return self.call_closure(self.env[e.func.id], self.call_args(e), {k.arg: self.ev(k.value) for k in e.keywords if k.arg}, e)
        if isinstance(e.func, ast.Name) and e.func.id in ("map", "starmap") and len(e.args) >= 2 and e.func.id not in self.env:
            try:
                f0 = self.ev(e.args[0])
            except AnalysisError:
                if not (isinstance(e.args[0], ast.Name) or (isinstance(e.args[0], ast.Attribute) and dotted(e.args[0].value) in ("self", "cls", (self.home or (None, None, None))[2]))):
                    raise
                f0 = None          # a built-in function passed by name (`map(range, shape)`) or a method of the object taken as a value
                #                    (`map(self._term, items)`): called below like a call written in the program
            seqs = [self._iterate(self.ev(a), e) for a in e.args[1:]]
            rows = [list(xs) for xs in zip(*seqs)] if e.func.id == "map" else [list(self._iterate(xs, e)) for xs in seqs[0]]
            if isinstance(f0, Closure):
                return [self.call_closure(f0, r0, {}, e) for r0 in rows]
            mc = self._operator_caller(f0)
            if mc is not None:
                return [mc(r0[0]) for r0 in rows]
            out = []
            for r0 in rows:          # any other callable: the call `f(x, ...)` is evaluated like a call written in the program
                names = ["__map_arg%d" % k0 for k0 in range(len(r0))]
                for n0, v0 in zip(names, r0):
                    self.env[n0] = v0
                try:
                    out.append(self.ev(ast.Call(func=e.args[0], args=[ast.Name(id=n0, ctx=ast.Load()) for n0 in names], keywords=[])))
                finally:
                    for n0 in names:
                        self.env.pop(n0, None)
            return out
        if self.home is not None:
            r = self._follow(e)
            if r is not NotImplemented:
                return r
        args = self.call_args(e)
        kw = {k.arg: self.ev(k.value) for k in e.keywords if k.arg}
        plain = isinstance(e.func, ast.Name) or (isinstance(e.func, ast.Attribute) and dotted(e.func.value) in ("itertools", "np", "numpy"))
        if plain and nm in _STRICT_CONSUMERS and any(isinstance(a0, GenObj) for a0 in args):
            args = [self._iterate(a0, e) if isinstance(a0, GenObj) else a0 for a0 in args]          # the consumer exhausts the generator first
        if nm == "count" and len(args) <= 2 and all(isinstance(a0, int) for a0 in args) and \
                (isinstance(e.func, ast.Name) or dotted(e.func.value) == "itertools") and not (isinstance(e.func, ast.Name) and "count" in self.env):
            return CountObj(*args, **{k0: v0 for k0, v0 in kw.items() if k0 in ("start", "step") and isinstance(v0, int)})
        if plain and nm == "iter" and len(args) == 1:
            return args[0] if isinstance(args[0], (IterObj, CountObj)) else IterObj(self._iterate(args[0], e))
        if plain and nm == "next" and 1 <= len(args) <= 2 and isinstance(args[0], (CountObj, IterObj, GenObj)):
            it0 = args[0]
            if isinstance(it0, CountObj):
                v0 = it0.n
                it0.n += it0.step
                return v0
            if isinstance(it0, GenObj):
                raise AnalysisError("`%s`: a generator function advanced step by step is outside the index-program fragment" % src(e)[:50])
            if it0.items:
                return it0.items.pop(0)
            if len(args) == 2:
                return args[1]
            raise ProgramRaise("StopIteration", "`%s` on an exhausted iterator" % src(e)[:50])
        if plain and nm in ("zip", "map") and any(isinstance(a0, CountObj) for a0 in args):
            finite = [len(self._iterate(a0, e)) if not isinstance(a0, (CountObj, GenObj, IterObj)) else None for a0 in args[(1 if nm == "map" else 0):]]
            if any(k0 is None for k0, a0 in zip(finite, args[(1 if nm == "map" else 0):]) if not isinstance(a0, CountObj)) or not [k0 for k0 in finite if k0 is not None]:
                raise AnalysisError("`%s`: an endless counter next to a one-shot iterator" % src(e)[:50])
            n0 = min(k0 for k0 in finite if k0 is not None)
            new_args = []
            seqs0 = args[(1 if nm == "map" else 0):]
            first_short = min(k1 for k1, k0 in enumerate(finite) if k0 == n0)
            for k1, a0 in enumerate(seqs0):
                if isinstance(a0, CountObj):
                    new_args.append([a0.n + k0 * a0.step for k0 in range(n0)])
                    a0.n += (n0 + (1 if k1 < first_short else 0)) * a0.step          # the round that finds the shortest exhausted has advanced it once more
                else:
                    new_args.append(a0)
            args = args[:(1 if nm == "map" else 0)] + new_args
        if plain and nm == "islice" and 2 <= len(args) <= 4 and all(a0 is None or isinstance(a0, int) for a0 in args[1:]):
            seq0 = self._iterate(args[0], e)
            return list(itertools.islice(seq0, *args[1:]))
        if plain and nm == "range" and all(isinstance(a, int) for a in args):
            return list(range(*args))
        if plain and nm == "enumerate":
            return [(i + kw.get("start", args[1] if len(args) > 1 else 0), v) for i, v in enumerate(self._iterate(args[0], e))]
        if plain and nm == "zip":
            return list(zip(*[self._iterate(a, e) for a in args]))
        if plain and nm == "product":
            seqs = [self._iterate(a, e) for a in args] * int(kw.get("repeat", 1))
            return list(itertools.product(*seqs))
        if nm == "ndindex" and args and not isinstance(e.func, ast.Name):
            shape = args[0] if len(args) == 1 and isinstance(args[0], (tuple, list)) else args
            if all(isinstance(x, int) for x in shape):
                return list(itertools.product(*[range(x) for x in shape]))
        if nm == "reduce" and 2 <= len(args) <= 3 and (isinstance(e.func, ast.Name) or dotted(e.func.value) == "functools"):
            f0 = args[0]
            seq = list(self._iterate(args[1], e))
            if len(args) == 3:
                acc = args[2]
            elif seq:
                acc, seq = seq[0], seq[1:]
            else:
                raise ProgramRaise("TypeError", "reduce() of an empty sequence with no initial value")
            for x in seq:
                self.env["__red_a"], self.env["__red_b"] = acc, x
                try:
                    if isinstance(f0, Closure):
                        acc = self.call_closure(f0, [acc, x], {}, e)
                    else:
                        acc = self.ev(ast.Call(func=e.args[0], args=[ast.Name(id="__red_a", ctx=ast.Load()), ast.Name(id="__red_b", ctx=ast.Load())], keywords=[]))
                finally:
                    self.env.pop("__red_a", None)
                    self.env.pop("__red_b", None)
            return acc
        if plain and nm == "chain" and isinstance(e.func, (ast.Name, ast.Attribute)):
            out = []
            for a0 in args:
                out.extend(self._iterate(a0, e))
            return out
        if nm == "from_iterable" and isinstance(e.func, ast.Attribute) and (dotted(e.func.value) or "").endswith("chain") and len(args) == 1:
            out = []
            for a0 in self._iterate(args[0], e):
                out.extend(self._iterate(a0, e))
            return out
        if plain and nm == "combinations" and len(args) == 2:
            return list(itertools.combinations(self._iterate(args[0], e), args[1]))
        if plain and nm == "combinations_with_replacement" and len(args) == 2:
            return list(itertools.combinations_with_replacement(self._iterate(args[0], e), args[1]))
        if plain and nm == "next" and isinstance(e.func, ast.Name) and 1 <= len(args) <= 2 and isinstance(args[0], list):
            # a generator expression is evaluated eagerly to a list (its elements have no effects here): next() takes the first element
            if args[0]:
                return args[0][0]
            if len(args) == 2:
                return args[1]
            raise ProgramRaise("StopIteration", "StopIteration")
        if plain and nm in ("any", "all") and len(args) == 1 and isinstance(args[0], list):
            vals = [self.truth(x) for x in args[0]]
            return any(vals) if nm == "any" else all(vals)
        if nm == "fromkeys" and isinstance(e.func, ast.Attribute) and dotted(e.func.value) == "dict" and 1 <= len(args) <= 2:
            try:
                return dict.fromkeys(self._iterate(args[0], e), args[1] if len(args) == 2 else None)
            except TypeError:
                raise AnalysisError("unhashable key in `%s`" % src(e)[:60])
        if plain and nm == "dict" and not args and isinstance(e.func, ast.Name):
            return dict(kw)
        if plain and nm == "dict" and len(args) == 1 and isinstance(args[0], dict) and isinstance(e.func, ast.Name):
            return dict(args[0], **kw)
        if plain and nm in ("set", "frozenset") and len(args) <= 1 and isinstance(e.func, ast.Name):
            try:
                items = self._iterate(args[0], e) if args else []
                return set(items) if nm == "set" else frozenset(items)
            except TypeError:
                raise AnalysisError("unhashable element in `%s`" % src(e)[:60])
        if (isinstance(e.func, ast.Attribute) and nm == "sort" and not args) or (plain and nm == "sorted" and len(args) == 1 and isinstance(e.func, ast.Name)):
            if nm == "sort":
                try:
                    seq = self.ev(e.func.value)
                except AnalysisError:
                    seq = None
            else:
                seq = self._iterate(args[0], e)
            if isinstance(seq, list):
                keyf = kw.get("key")
                keys = []
                for x in seq:
                    k0 = x
                    if isinstance(keyf, Closure):
                        k0 = self.call_closure(keyf, [x], {}, e)
                    elif keyf is not None:
                        raise AnalysisError("sort key `%s` outside the index-program fragment" % src(e)[:60])
                    keys.append(k0)
                if not all(isinstance(k0, (int, float, str)) and not isinstance(k0, bool) for k0 in keys) or len({type(k0) is str for k0 in keys}) > 1:
                    raise AnalysisError("the order produced by `%s` depends on symbolic values" % src(e)[:60])
                order = sorted(range(len(seq)), key=lambda i0: keys[i0], reverse=bool(kw.get("reverse", False)))
                out = [seq[i0] for i0 in order]
                if nm == "sort":
                    seq[:] = out
                    return None
                return out
        if isinstance(e.func, ast.Attribute) and nm in ("remove", "index", "count") and len(args) == 1:
            try:
                base = self.ev(e.func.value)
            except AnalysisError:
                base = None
            if isinstance(base, list):
                def matches(x):
                    if x is args[0] or _eq_builds_object(x) or _eq_builds_object(args[0]):
                        return True          # `==` of an object-building class is truthy: the first such element "matches"
                    try:
                        return bool(x == args[0])
                    except Exception:
                        return False
                hits = [k for k, x in enumerate(base) if matches(x)]
                if nm == "count":
                    return len(hits)
                if not hits:
                    raise ProgramRaise("ValueError", "ValueError `%s`" % src(e)[:60])
                if nm == "index":
                    return hits[0]
                del base[hits[0]]
                return None
        if isinstance(e.func, ast.Attribute) and nm in ("add", "discard") and len(args) == 1:
            try:
                base = self.ev(e.func.value)
            except AnalysisError:
                base = None
            if isinstance(base, set):
                try:
                    getattr(base, nm)(args[0])
                except TypeError:
                    raise AnalysisError("unhashable element in `%s`" % src(e)[:60])
                return None
        if plain and nm in ("list", "tuple") and len(args) <= 1:
            seq = self._iterate(args[0], e) if args else []
            return list(seq) if nm == "list" else tuple(seq)
        if plain and nm == "reversed" and len(args) == 1:
            return list(reversed(self._iterate(args[0], e)))
        if plain and nm == "len" and len(args) == 1 and isinstance(args[0], (list, tuple, dict, set, frozenset)) and not is_token(args[0]):
            return len(args[0])
        if plain and nm == "sum" and 1 <= len(args) <= 2 and isinstance(args[0], (list, tuple)) and not is_token(args[0]):
            acc = args[1] if len(args) == 2 else kw.get("start", 0)
            for k0, v0 in enumerate(args[0]):
                self.env["__sum_l"], self.env["__sum_r"] = acc, v0
                acc = self.ev(ast.BinOp(left=ast.Name(id="__sum_l", ctx=ast.Load()), op=ast.Add(), right=ast.Name(id="__sum_r", ctx=ast.Load())))
            self.env.pop("__sum_l", None)
            self.env.pop("__sum_r", None)
            return acc
        if plain and nm in ("max", "min") and args and all(isinstance(a, (int, float)) for a in args):
            return max(args) if nm == "max" else min(args)
        if plain and nm == "int" and len(args) == 1 and isinstance(args[0], str):
            try:
                return int(args[0])
            except ValueError:
                raise ProgramRaise("ValueError", "int(%r)" % args[0])
        if plain and nm in ("int", "float", "abs") and len(args) == 1 and isinstance(args[0], (int, float)):
            return {"int": int, "float": float, "abs": abs}[nm](args[0])
        if nm in ("zeros", "empty", "zeros_like", "empty_like") and not isinstance(e.func, ast.Name):
            if nm in ("zeros", "empty") and args and args[0] is None:
                raise ProgramRaise("TypeError", "TypeError `%s` with shape None" % src(e)[:40])
            shape = args[0] if args else None
            if isinstance(shape, list):
                shape = tuple(shape)
            if isinstance(shape, int):
                shape = (shape,)
            m = Matrix("matrix%d" % (len(self.matrices) + 1), shape if isinstance(shape, tuple) and all(isinstance(x, int) for x in shape) else None)
            self.matrices.append(m)
            return m
        if nm in ("array", "asarray") and not isinstance(e.func, ast.Name) and len(args) == 1 and isinstance(args[0], (list, tuple)) and not is_token(args[0]):
            return list(args[0])
        if isinstance(e.func, ast.Attribute) and nm in ("startswith", "endswith", "lower", "upper", "strip", "lstrip", "rstrip", "format", "split", "join", "title", "capitalize"):
            try:
                base = self.ev(e.func.value)
            except AnalysisError:
                base = None
            if isinstance(base, str) and nm == "format" and all(a is None or (isinstance(a, (str, int, float)) and not is_token(a)) for a in args) \
                    and all(v0 is None or isinstance(v0, (str, int, float)) for v0 in kw.values()):
                try:
                    return base.format(*args, **kw)          # None is formatted as Python formats it ('None')
                except (IndexError, KeyError, ValueError):
                    raise ProgramRaise("IndexError", "`%s`: replacement fields and arguments do not match" % src(e)[:60])
            if isinstance(base, str) and all(isinstance(a, (str, int, float, tuple)) and not is_token(a) for a in args):
                return getattr(base, nm)(*args)
        if isinstance(e.func, ast.Attribute) and nm == "update" and len(args) <= 1:
            try:
                base = self.ev(e.func.value)
            except AnalysisError:
                base = None
            if isinstance(base, dict):
                src0 = args[0] if args else {}
                try:
                    if isinstance(src0, dict):
                        base.update(src0)
                    else:
                        for pair in self._iterate(src0, e):
                            k0, v0 = self._iterate(pair, e) if not isinstance(pair, tuple) else pair
                            base[k0] = v0
                    base.update(kw)
                except (TypeError, ValueError):
                    raise AnalysisError("dict.update with `%s`" % src(e)[:60])
                return None
        ct = self.callee_text(e.func)
        if ct.startswith("operator.") and ct[9:] in _OPERATOR_CMP and len(args) == 2 and not kw:
            self.env["__op_a"], self.env["__op_b"] = args
            try:
                return self.ev(ast.Compare(left=ast.Name(id="__op_a", ctx=ast.Load()), ops=[_OPERATOR_CMP[ct[9:]]()], comparators=[ast.Name(id="__op_b", ctx=ast.Load())]))
            finally:
                self.env.pop("__op_a", None)
                self.env.pop("__op_b", None)
        if ct.startswith("operator.") and ct[9:] in _OPERATOR_FUNCS:
            nm = ct[9:]
        if (ct.startswith("operator.") or isinstance(e.func, ast.Attribute) and dotted(e.func.value) == "operator" or isinstance(e.func, ast.Name) and e.func.id not in self.env) \
                and nm in _OPERATOR_FUNCS and len(args) == len(_OPERATOR_FUNCS[nm][1]) and not kw:
            opcls, names = _OPERATOR_FUNCS[nm]
            for n0, v0 in zip(names, args):
                self.env[n0] = v0
            try:
                if len(names) == 2:
                    return self.ev(ast.BinOp(left=ast.Name(id=names[0], ctx=ast.Load()), op=opcls(), right=ast.Name(id=names[1], ctx=ast.Load())))
                return self.ev(ast.UnaryOp(op=opcls(), operand=ast.Name(id=names[0], ctx=ast.Load())))
            finally:
                for n0 in names:
                    self.env.pop(n0, None)
        if isinstance(e.func, ast.Attribute) and nm in ("items", "keys", "values", "get", "copy"):
            base = self.ev(e.func.value)
            if isinstance(base, dict):
                if nm == "items":
                    return list(base.items())
                if nm == "keys":
                    return list(base.keys())
                if nm == "values":
                    return list(base.values())
                if nm == "copy":
                    return dict(base)
                return base.get(args[0], args[1] if len(args) > 1 else None)
        if isinstance(e.func, ast.Attribute) and dotted(e.func.value) == "re" and nm in ("match", "fullmatch", "search", "findall", "sub", "split") \
                and len(args) >= 2 and all(isinstance(a, (str, int)) for a in args):
            import re as _re          # a literal pattern applied to a literal string: evaluated like any other string operation
            try:
                return getattr(_re, nm)(*args)
            except (_re.error, TypeError):
                raise ProgramRaise("Exception", "`%s`" % src(e)[:60])
        if isinstance(e.func, ast.Attribute) and nm in ("group", "groups", "start", "end", "span"):
            try:
                base = self.ev(e.func.value)
            except AnalysisError:
                base = None
            if type(base).__name__ == "Match" and all(isinstance(a, (int, str)) for a in args):
                try:
                    return getattr(base, nm)(*args)
                except (IndexError, TypeError):
                    raise ProgramRaise("IndexError", "`%s`" % src(e)[:60])
        if isinstance(e.func, ast.Attribute) and nm in ("isdigit", "isnumeric", "isdecimal", "isalpha", "removeprefix", "removesuffix", "replace", "partition", "find", "index", "count"):
            try:
                base = self.ev(e.func.value)
            except AnalysisError:
                base = None
            if isinstance(base, str) and all(isinstance(a, (str, int)) for a in args):
                try:
                    r0 = getattr(base, nm)(*args)
                except ValueError:
                    raise ProgramRaise("ValueError", "`%s`" % src(e)[:60])
                return list(r0) if isinstance(r0, tuple) and nm != "partition" else r0
        if plain and nm == "type" and len(args) == 1:
            v = args[0]
            if isinstance(v, SymObj):
                return ("type", v.kind)
            return ("type", type(v).__name__ if not _is_rat(v) else "float")
        if plain and nm == "isinstance" and len(args) == 2:
            v, t = args
            ts = t if isinstance(t, tuple) and not is_token(t) else (t,)
            kind = ("type", v.kind) if isinstance(v, SymObj) else ("type", "float" if _is_rat(v) else type(v).__name__)
            return kind in ts
        return ("call", self.callee_text(e.func), tuple(args), tuple(sorted(kw.items())))

    def _operator_caller(self, f0):
        """operator.methodcaller('m', ...) / attrgetter('a') / itemgetter(k) held as a value -> python callable on interpreted values, or None"""
        if not (is_token(f0) and f0[0] == "call" and isinstance(f0[1], str)):
            return None
        name = f0[1].split(".")[-1]
        a0 = f0[2]
        if name == "methodcaller" and a0 and isinstance(a0[0], str):
            def call(x, a0=a0):
                self.env["__mc_obj"] = x
                for k0, v0 in enumerate(a0[1:]):
                    self.env["__mc_a%d" % k0] = v0
                try:
                    return self.ev(ast.Call(func=ast.Attribute(value=ast.Name(id="__mc_obj", ctx=ast.Load()), attr=a0[0], ctx=ast.Load()),
                                            args=[ast.Name(id="__mc_a%d" % k0, ctx=ast.Load()) for k0 in range(len(a0) - 1)], keywords=[]))
                finally:
                    self.env.pop("__mc_obj", None)
            return call
        if name == "attrgetter" and len(a0) == 1 and isinstance(a0[0], str):
            def get(x, a0=a0):
                self.env["__mc_obj"] = x
                try:
                    node = ast.Name(id="__mc_obj", ctx=ast.Load())
                    for part in a0[0].split("."):
                        node = ast.Attribute(value=node, attr=part, ctx=ast.Load())
                    return self.ev(node)
                finally:
                    self.env.pop("__mc_obj", None)
            return get
        if name == "itemgetter" and len(a0) == 1:
            def item(x, a0=a0):
                self.env["__mc_obj"], self.env["__mc_k"] = x, a0[0]
                try:
                    return self.ev(ast.Subscript(value=ast.Name(id="__mc_obj", ctx=ast.Load()), slice=ast.Name(id="__mc_k", ctx=ast.Load()), ctx=ast.Load()))
                finally:
                    self.env.pop("__mc_obj", None)
                    self.env.pop("__mc_k", None)
            return item
        return None

    def call_args(self, e):
        """evaluated positional arguments of a call, `*iterable` expanded"""
        out = []
        for a in e.args:
            if isinstance(a, ast.Starred):
                out.extend(self._iterate(self.ev(a.value), a))
            else:
                out.append(self.ev(a))
        return out

    def call_closure(self, c, vals, kws, node):
        n0 = c.node
        a = n0.args
        if self.depth >= 6:
            raise AnalysisError("call of `%s` outside the index-program fragment" % src(node)[:60])
        ps = [x.arg for x in a.posonlyargs + a.args]
        defaults = dict(zip(ps[len(ps) - len(a.defaults):], a.defaults))
        env2 = dict(self.env)
        for k0, p0 in enumerate(ps):
            if k0 < len(vals):
                env2[p0] = vals[k0]
            elif p0 in kws:
                env2[p0] = kws[p0]
            elif p0 in defaults:
                env2[p0] = self.ev(defaults[p0])
            else:
                raise ProgramRaise("TypeError", "missing argument `%s` in `%s`" % (p0, src(node)[:50]))
        if len(vals) > len(ps) and a.vararg is None:
            raise ProgramRaise("TypeError", "too many positional arguments in `%s`" % src(node)[:50])
        if a.vararg is not None:
            env2[a.vararg.arg] = tuple(vals[len(ps):])
        for x0, d0 in zip(a.kwonlyargs, a.kw_defaults):
            if x0.arg in kws:
                env2[x0.arg] = kws[x0.arg]
            elif d0 is not None:
                env2[x0.arg] = self.ev(d0)
            else:
                raise ProgramRaise("TypeError", "missing keyword argument `%s` in `%s`" % (x0.arg, src(node)[:50]))
        extra = {k0: v0 for k0, v0 in kws.items() if k0 not in ps and k0 not in [x0.arg for x0 in a.kwonlyargs]}
        if a.kwarg is not None:
            env2[a.kwarg.arg] = extra
        elif extra:
            raise ProgramRaise("TypeError", "unexpected keyword argument `%s` in `%s`" % (sorted(extra)[0], src(node)[:50]))
        sub = type(self).__new__(type(self))
        sub.__dict__.update(self.__dict__)
        sub.__dict__.pop("ev", None)
        sub.env = env2
        sub.depth = self.depth + 1
        try:
            if isinstance(n0, ast.Lambda):
                ret = sub.ev(n0.body)
            else:
                ret = sub.run(n0.body)
        finally:
            self.steps = sub.steps
        for k0, v0 in sub.env.items():
            if "." in k0:
                self.env[k0] = v0
        return ret

    def _follow(self, e):
        """A call of a private helper of the analysed package (method of the home class through self / cls / the class name, or function of the home
        module): interpreted in place, with the caller's view of `self.*` and of the class-level state, which it may update."""
        repo, module, cname = self.home
        f = e.func
        target, recv_self = None, None
        if isinstance(f, ast.Attribute) and cname is not None and dotted(f.value) in ("self", "cls", cname):
            c = repo.cls(cname)
            target = c.find_method(f.attr) if c is not None else None
            if target is not None and not any(isinstance(d0, ast.Name) and d0.id in ("staticmethod",) for d0 in target.decorator_list):
                recv_self = self.env.get("self", "<dotted self>")
        elif isinstance(f, ast.Name) and f.id not in self.env:
            r0 = repo.resolve_name(module, f.id)
            if isinstance(r0, ast.FunctionDef):
                target = r0
        same_module_function = target is not None and recv_self is None and isinstance(f, ast.Name) and getattr(target, "_module", None) is module \
            and getattr(target, "_cls", None) is None
        private_module = target is not None and recv_self is None and isinstance(f, ast.Name) and getattr(target, "_cls", None) is None and \
            os.path.basename(getattr(getattr(target, "_module", None), "rel", "") or "").startswith("_") and \
            not os.path.basename(getattr(getattr(target, "_module", None), "rel", "") or "").startswith("__")
        if target is None or target.name.startswith("__") or self.depth >= 4 or not (target.name.startswith("_") or same_module_function or private_module):
            return NotImplemented
        a = target.args
        if a.kwarg or a.kwonlyargs or any(k.arg is None for k in e.keywords):
            return NotImplemented
        ps = [x.arg for x in a.posonlyargs + a.args]
        if recv_self is not None:
            ps = ps[1:]
        vals = self.call_args(e)
        kws = {k.arg: self.ev(k.value) for k in e.keywords}
        if (len(vals) > len(ps) and a.vararg is None) or any(k0 not in ps for k0 in kws):
            return NotImplemented
        tmod = getattr(target, "_module", None) or module
        mod_names = set(getattr(tmod, "imports", {})) | set(getattr(tmod, "globals", {})) if tmod is not None else set()
        # the caller's view of attributes, of types, and of the module-level objects of the helper's module (a model of `null_point`, say)
        env2 = {k0: v0 for k0, v0 in self.env.items() if "." in k0 or (is_token(v0) and v0[0] == "type") or k0 in mod_names}
        if recv_self is not None and recv_self != "<dotted self>":
            env2[(a.posonlyargs + a.args)[0].arg] = recv_self
        defaults = dict(zip(ps[len(ps) - len(a.defaults):], a.defaults))
        for k0, p0 in enumerate(ps):
            if k0 < len(vals):
                env2[p0] = vals[k0]
            elif p0 in kws:
                env2[p0] = kws[p0]
            elif p0 in defaults:
                env2[p0] = self.ev(defaults[p0])
            else:
                return NotImplemented
        if a.vararg is not None:
            env2[a.vararg.arg] = tuple(vals[len(ps):])          # `*rest`: what is left of the positional arguments
        sub = type(self).__new__(type(self))
        sub.__dict__.update(self.__dict__)
        sub.__dict__.pop("ev", None)
        sub.env = env2
        sub.depth = self.depth + 1
        sub.events = self.events
        sub.matrices = self.matrices
        try:
            ret = sub.run(target.body)
        except ProgramRaise:
            raise
        except AnalysisError:
            return NotImplemented          # the helper is outside the fragment on these arguments: it stays an opaque call, as before
        finally:
            self.steps = sub.steps
        for k0, v0 in sub.env.items():
            if "." in k0:
                self.env[k0] = v0          # attribute / class-level stores made by the helper are visible to the caller
        return ret

    # ------------------------------------------------------------------ statements
    def _bind(self, target, value):
        if isinstance(target, ast.Name):
            self.env[target.id] = value
            if isinstance(value, Matrix):
                value.name = target.id
        elif isinstance(target, (ast.Tuple, ast.List)) and sum(1 for t in target.elts if isinstance(t, ast.Starred)) == 1:
            vals = self._iterate(value, target)
            k = [i0 for i0, t in enumerate(target.elts) if isinstance(t, ast.Starred)][0]
            after = len(target.elts) - k - 1
            if len(vals) < len(target.elts) - 1:
                raise ProgramRaise("ValueError", "not enough values to unpack into `%s`" % src(target))
            for t, v in zip(target.elts[:k], vals[:k]):
                self._bind(t, v)
            self._bind(target.elts[k].value, list(vals[k:len(vals) - after]))
            for t, v in zip(target.elts[k + 1:], vals[len(vals) - after:]):
                self._bind(t, v)
        elif isinstance(target, (ast.Tuple, ast.List)):
            vals = self._iterate(value, target)
            if len(vals) != len(target.elts):
                raise AnalysisError("cannot unpack %d values into `%s`" % (len(vals), src(target)))
            for t, v in zip(target.elts, vals):
                self._bind(t, v)
        elif isinstance(target, ast.Subscript):
            base = self.ev(target.value)
            idx = self.ev(target.slice)
            if isinstance(base, Matrix):
                base.writes[idx] = value
                base.order.append((idx, value))
            elif isinstance(base, list) and isinstance(idx, int):
                base[idx] = value
            elif isinstance(base, dict):
                try:
                    base[idx] = value
                except TypeError:
                    raise AnalysisError("unhashable key in `%s`" % src(target))
            else:
                raise AnalysisError("store into `%s`" % src(target))
        elif isinstance(target, ast.Attribute):
            base = None
            if isinstance(target.value, ast.Name) and target.value.id in self.env:
                base = self.env[target.value.id]
            if isinstance(base, SymObj):
                base.attrs[target.attr] = value          # a store into a symbolic object stays with the object
            else:
                self.env[dotted(target)] = value
        else:
            raise AnalysisError("assignment target `%s`" % src(target))

    def _match(self, pat, subj):
        """structural pattern matching, the patterns a dispatch on kinds uses: `Cls()`, literals, `a | b`, `_` / a capture name"""
        if isinstance(pat, ast.MatchAs):
            if pat.pattern is not None and not self._match(pat.pattern, subj):
                return False
            if pat.name is not None:
                self.env[pat.name] = subj
            return True
        if isinstance(pat, ast.MatchOr):
            return any(self._match(p0, subj) for p0 in pat.patterns)
        if isinstance(pat, ast.MatchValue):
            self.env["__match_value"] = subj
            try:
                return self.truth(self.ev(ast.Compare(left=ast.Name(id="__match_value", ctx=ast.Load()), ops=[ast.Eq()], comparators=[pat.value])))
            finally:
                self.env.pop("__match_value", None)
        if isinstance(pat, ast.MatchSingleton):
            return subj is pat.value
        if isinstance(pat, ast.MatchClass) and not pat.patterns and not pat.kwd_patterns:
            # `case Cls():` is `isinstance(subject, Cls)`: asked the way the program would ask it (the rule's model of isinstance answers)
            self.env["__match_value"] = subj
            try:
                call = ast.Call(func=ast.Name(id="isinstance", ctx=ast.Load()), args=[ast.Name(id="__match_value", ctx=ast.Load()), pat.cls], keywords=[])
                return self.truth(self.ev(ast.copy_location(call, pat)))
            finally:
                self.env.pop("__match_value", None)
        raise AnalysisError("pattern `%s` outside the index-program fragment" % src(pat)[:50])

    def run(self, stmts):
        """-> returned value (or None).  Statement-level calls are appended to self.events as (node, value)."""
        if self.home is None and stmts:
            # the function being unrolled tells which module / class its private helpers and module-level tables belong to
            n0 = stmts[0]
            for _ in range(50):
                n0 = getattr(n0, "_parent", None)
                if n0 is None or (isinstance(n0, ast.FunctionDef) and getattr(n0, "_module", None) is not None):
                    break
            if n0 is not None and getattr(n0._module, "repo", None) is not None:
                c0 = getattr(n0, "_cls", None)
                self.home = (n0._module.repo, n0._module, c0.name if c0 is not None else None)
        if _has_yield(stmts):
            return GenObj(self, stmts, _generator_effect(stmts))          # a generator function: its body runs when somebody iterates
        try:
            self._block(stmts)
        except _Return as r:
            return r.value
        return None

    def _block(self, stmts):
        for s in stmts:
            self.steps += 1
            if self.steps > self.MAX_STEPS:
                raise AnalysisError("index program does not terminate within the unrolling budget")
            if isinstance(s, ast.Assign):
                v = self.ev(s.value)
                for t in s.targets:
                    self._bind(t, v)
            elif isinstance(s, ast.AugAssign):
                cur = self.ev(s.target) if not isinstance(s.target, ast.Name) else self.env.get(s.target.id)
                if cur is None:
                    raise AnalysisError("augmented assignment to the unbound `%s`" % src(s.target))
                rhs = self.ev(s.value)
                if isinstance(cur, VecObj) and cur.kind == "Point" and cur.attrs.get("stored_array"):
                    # numpy: `a += b` on an array writes into the array itself -- here the array is the value stored on a leaf
                    raise ProgramRaise("AliasedUpdate", "`%s` updates in place the array that is the stored value of %s" % (norm_stmt(s)[:50], cur.attrs["stored_array"]))
                if isinstance(cur, VecObj) or isinstance(rhs, VecObj):
                    tmpl, tmpr = "__aug_l", "__aug_r"
                    self.env[tmpl], self.env[tmpr] = cur, rhs
                    self._bind(s.target, self.ev(ast.BinOp(left=ast.Name(id=tmpl, ctx=ast.Load()), op=s.op, right=ast.Name(id=tmpr, ctx=ast.Load()))))
                    del self.env[tmpl], self.env[tmpr]
                elif (_is_rat(cur) or _is_rat(rhs)) and isinstance(s.op, (ast.Add, ast.Sub, ast.Mult, ast.Div)):
                    res = {ast.Add: lambda: cur + rhs, ast.Sub: lambda: cur - rhs, ast.Mult: lambda: cur * rhs, ast.Div: lambda: cur / rhs}[type(s.op)]
                    self._bind(s.target, res())
                elif isinstance(cur, (int, float)) and isinstance(rhs, (int, float)):
                    res = {ast.Add: lambda: cur + rhs, ast.Sub: lambda: cur - rhs, ast.Mult: lambda: cur * rhs, ast.FloorDiv: lambda: cur // rhs}.get(type(s.op))
                    if res is None:
                        raise AnalysisError("statement `%s`" % norm_stmt(s)[:50])
                    self._bind(s.target, res())
                elif isinstance(cur, list) and isinstance(s.op, ast.Add):
                    cur.extend(self._iterate(rhs, s.value))
                elif isinstance(cur, Matrix) and isinstance(rhs, Matrix) and isinstance(s.op, (ast.Add, ast.Sub)) and cur.shape == rhs.shape:
                    # two arrays of one shape (`weights += unit_vector(...)`, also the normal form of `weights = weights + ...`): entry by entry
                    self._bind(s.target, self._matrix_op(ast.BinOp(left=s.target, op=s.op, right=s.value), cur, rhs))
                else:
                    self._bind(s.target, ("op", type(s.op).__name__, cur, rhs))
            elif isinstance(s, ast.For):
                broke = False
                for v in self._iterate(self.ev(s.iter), s.iter):
                    self._bind(s.target, v)
                    try:
                        self._block(s.body)
                    except _Continue:
                        continue
                    except _Break:
                        broke = True
                        break
                if not broke:
                    self._block(s.orelse)
            elif isinstance(s, ast.While):
                while self.truth(self.ev(s.test)):
                    try:
                        self._block(s.body)
                    except _Continue:
                        continue
                    except _Break:
                        break
            elif isinstance(s, ast.If):
                self._block(s.body if self.truth(self.ev(s.test)) else s.orelse)
            elif isinstance(s, ast.Return):
                raise _Return(self.ev(s.value) if s.value is not None else None)
            elif isinstance(s, ast.Continue):
                raise _Continue()
            elif isinstance(s, ast.Break):
                raise _Break()
            elif isinstance(s, (ast.Pass, ast.Import, ast.ImportFrom)):
                continue
            elif isinstance(s, ast.FunctionDef) and not s.decorator_list:
                self.env[s.name] = Closure(s)
            elif isinstance(s, ast.Assert):
                if self.check_asserts:
                    try:
                        okk = self.truth(self.ev(s.test))
                    except AnalysisError:
                        okk = True              # an assertion on something symbolic is taken to hold
                    if not okk:
                        raise ProgramRaise("AssertionError", "AssertionError `%s`" % src(s.test)[:60])
                continue
            elif isinstance(s, ast.Expr) and isinstance(s.value, ast.Call):
                c = s.value
                if call_name(c) in ("append", "extend") and isinstance(c.func, ast.Attribute) and len(c.args) == 1:
                    base = self.ev(c.func.value)
                    if isinstance(base, list):
                        v = self.ev(c.args[0])
                        if call_name(c) == "append":
                            base.append(v)
                        else:
                            base.extend(self._iterate(v, c))
                        continue
                if call_name(c) == "print":
                    continue
                self.events.append((c, self.ev(c)))
            elif isinstance(s, ast.Expr) and isinstance(s.value, ast.Constant):
                continue
            elif isinstance(s, ast.Expr) and isinstance(s.value, (ast.Yield, ast.YieldFrom)) and self.__dict__.get("_yield_sink") is not None:
                if isinstance(s.value, ast.Yield):
                    self._yield_sink.append(self.ev(s.value.value) if s.value.value is not None else None)
                else:
                    self._yield_sink.extend(self._iterate(self.ev(s.value.value), s.value))
            elif isinstance(s, ast.Raise):
                if s.exc is None:
                    cur = getattr(self, "_handling", None)
                    if cur is not None:
                        raise cur
                    raise ProgramRaise("RuntimeError", "bare `raise` outside a handler")
                x = s.exc.func if isinstance(s.exc, ast.Call) else s.exc
                raise ProgramRaise((dotted(x) or "Exception").split(".")[-1], "`%s`" % norm_stmt(s)[:60])
            elif isinstance(s, ast.Try):
                try:
                    self._block(s.body)
                except ProgramRaise as r:
                    handled = False
                    for h in s.handlers:
                        names = []
                        if h.type is not None:
                            for t0 in (h.type.elts if isinstance(h.type, ast.Tuple) else [h.type]):
                                names.append((dotted(t0) or "").split(".")[-1])
                        if h.type is None or r.exc in names or "Exception" in names or "BaseException" in names or \
                                (r.exc in _EXC_PARENTS and any(n0 in _EXC_PARENTS[r.exc] for n0 in names)):
                            handled = True
                            if h.name:
                                self.env[h.name] = ("exception", r.exc)
                            prev = getattr(self, "_handling", None)
                            self._handling = r
                            try:
                                self._block(h.body)
                            finally:
                                self._handling = prev
                            break
                    if not handled:
                        self._block(s.finalbody)
                        raise
                else:
                    self._block(s.orelse)
                self._block(s.finalbody)
            elif hasattr(ast, "Match") and isinstance(s, ast.Match):
                subj = self.ev(s.subject)
                self.env["__match_subject"] = subj
                try:
                    for case in s.cases:
                        if self._match(case.pattern, subj) and (case.guard is None or self.truth(self.ev(case.guard))):
                            self._block(case.body)
                            break
                finally:
                    self.env.pop("__match_subject", None)
            else:
                raise AnalysisError("statement `%s` outside the index-program fragment" % norm_stmt(s)[:50])
