"""Abstract interpretation of the operator methods of the DSL classes (Point, Expression, Function).

Receivers and operands are *abstract objects*: a class name and a decomposition over symbolic keys with symbolic
coefficients (exact rational functions).  The method bodies are interpreted on the syntax tree: dictionary helpers,
comprehensions, loops over items, isinstance tests (decided by the abstract kind of the operand), delegation to other
operator methods, constructor calls (a new non-leaf object; creating a leaf is reported), Constraint(...) (an abstract
constraint).  Nothing of PEPit is imported or run; coefficients never take values.

The result of every operator on every operand kind is then compared with the vector-space / inner-product calculus
the property states (sa/rules/c06.py holds the table)."""
import ast
from .model import AnalysisError, ClassInfo, src, call_name, dotted, params_of, get_arg, is_const, norm_stmt
from .nf import Rat, to_rat
from .rules.dictops import DictInterp, _Unknown, _Ret, _Pair


class AObj:
    def __init__(self, cls, dd, flag=None, leaf=False):
        self.cls, self.dd, self.flag, self.leaf = cls, dd, flag, leaf

    def __repr__(self):
        return "%s%s" % (self.cls, show_dict(self.dd))


class AScalar:
    def __init__(self, rat, kind):
        self.rat, self.kind = rat, kind

    def __repr__(self):
        return "%s:%s" % (self.kind, self.rat)


class ACons:
    def __init__(self, expr, sense):
        self.expr, self.sense = expr, sense

    def __repr__(self):
        return "Constraint(%r, %s)" % (self.expr, self.sense)


class Raised(Exception):
    def __init__(self, kind, what=""):
        self.kind, self.what = kind, what


class LeafCreated(AnalysisError):
    pass


def show_dict(d):
    return "{" + ", ".join("%s: %s" % (k, v) for k, v in d.items()) + "}"


BINOPS = {ast.Add: ("__add__", "__radd__"), ast.Sub: ("__sub__", "__rsub__"), ast.Mult: ("__mul__", "__rmul__"),
          ast.Div: ("__truediv__", "__rtruediv__"), ast.Pow: ("__pow__", "__rpow__")}
CMPOPS = {ast.LtE: ("__le__", "__ge__"), ast.Lt: ("__lt__", "__gt__"), ast.GtE: ("__ge__", "__le__"), ast.Gt: ("__gt__", "__lt__"), ast.Eq: ("__eq__", "__eq__")}
DSL = ("Point", "Expression", "Function")


NOTIMPL = "<NotImplemented>"
REFLECTED = {"__lt__": "__gt__", "__gt__": "__lt__", "__le__": "__ge__", "__ge__": "__le__", "__eq__": "__eq__", "__ne__": "__ne__",
             "__add__": "__radd__", "__sub__": "__rsub__", "__mul__": "__rmul__", "__truediv__": "__rtruediv__", "__pow__": "__rpow__"}


def binary(interp, me, op, arg):
    """`me <op> arg` as Python evaluates it: the method of the left operand; when it answers NotImplemented, the reflected method of the right
    operand (if it is a DSL object); when that answers NotImplemented too, TypeError"""
    got = interp.invoke(me, op, [arg])
    if got is NOTIMPL or got == NOTIMPL:
        r = REFLECTED.get(op)
        if r and isinstance(arg, AObj) and interp.repo.cls(arg.cls).find_method(r) is not None and not (r == op and arg.cls == me.cls):
            got = interp.invoke(arg, r, [me])
        if got is NOTIMPL or got == NOTIMPL:
            raise Raised("TypeError", "both operands answer NotImplemented")
    return got


class OpInterp(DictInterp):
    def __init__(self, repo, module, depth=0):
        super().__init__(module, depth)
        self.repo = repo

    # -- method invocation ------------------------------------------------------------------------
    def invoke(self, obj, name, args, kwargs=None):
        cls = self.repo.cls(obj.cls)
        fn = cls.find_method(name)
        if fn is None:
            raise Raised("AttributeError", "%s has no %s" % (obj.cls, name))
        if self.depth > 8:
            raise AnalysisError("operator delegation too deep at %s.%s" % (obj.cls, name))
        ps = params_of(fn)
        env = {ps[0]: obj}
        rest = ps[1:]
        for p, a in zip(rest, args):
            env[p] = a
        for k, v in (kwargs or {}).items():
            if k not in rest:
                raise Raised("TypeError", "unexpected keyword %s" % k)
            env[k] = v
        # defaults
        defaults = fn.args.defaults
        for p, d in zip(rest[len(rest) - len(defaults):], defaults):
            if p not in env:
                env[p] = self.ev(d, {})
        missing = [p for p in rest if p not in env]
        if missing:
            raise Raised("TypeError", "missing argument %s" % missing)
        sub = OpInterp(self.repo, fn._module, self.depth + 1)
        try:
            sub.block(fn.body, env)
        except _Ret as r:
            return r.v
        return None

    # -- statements -----------------------------------------------------------------------------------
    def stmt(self, s, env):
        if isinstance(s, ast.Assert):
            if not self.truth(s.test, env):
                raise Raised("AssertionError", src(s.test))
            return
        if isinstance(s, ast.Raise):
            e = s.exc.func if isinstance(s.exc, ast.Call) else s.exc
            raise Raised(dotted(e) or "Exception")
        if isinstance(s, ast.Expr) and isinstance(s.value, ast.Call) and (dotted(s.value.func) or "").startswith("warnings."):
            return
        if isinstance(s, ast.Expr) and isinstance(s.value, ast.Constant):
            return
        if isinstance(s, ast.Try):
            try:
                self.block(s.body, env)
            except Raised as r:
                for h in s.handlers:
                    names = [] if h.type is None else [(dotted(t0) or "").split(".")[-1] for t0 in (h.type.elts if isinstance(h.type, ast.Tuple) else [h.type])]
                    if h.type is None or r.kind.split(".")[-1] in names or "Exception" in names or "BaseException" in names:
                        self.block(h.body, env)
                        break
                else:
                    self.block(s.finalbody, env)
                    raise
            else:
                self.block(s.orelse, env)
            self.block(s.finalbody, env)
            return
        return super().stmt(s, env)

    # -- tests ----------------------------------------------------------------------------------------
    def truth(self, t, env):
        if isinstance(t, ast.Call) and call_name(t) == "isinstance" and len(t.args) == 2:
            v = self.ev(t.args[0], env)
            ks = t.args[1].elts if isinstance(t.args[1], ast.Tuple) else [t.args[1]]
            names = {dotted(k) for k in ks}
            return self.kind_of(v) in names or (self.kind_of(v) == "bool" and "int" in names)
        if isinstance(t, ast.Call) and call_name(t) == "isscalar" and len(t.args) == 1:
            # numpy.isscalar: true for every Python / numpy scalar -- numbers, but also str, bytes and complex
            return self.kind_of(self.ev(t.args[0], env)) in ("int", "float", "bool", "str", "complex", "bytes")
        if isinstance(t, ast.Call) and call_name(t) == "isinstance" and len(t.args) == 2 and dotted(t.args[1]) in ("numbers.Number", "Number"):
            return self.kind_of(self.ev(t.args[0], env)) in ("int", "float", "bool", "complex")
        if isinstance(t, ast.Call) and call_name(t) == "isinstance" and len(t.args) == 2 and dotted(t.args[1]) in ("numbers.Real", "Real"):
            return self.kind_of(self.ev(t.args[0], env)) in ("int", "float", "bool")
        if isinstance(t, ast.Compare) and len(t.ops) == 1 and isinstance(t.ops[0], (ast.Eq, ast.NotEq, ast.Is, ast.IsNot)):
            a, b = self.ev(t.left, env), self.ev(t.comparators[0], env)
            if isinstance(a, AScalar) and isinstance(b, (AScalar, Rat)):
                br = b.rat if isinstance(b, AScalar) else b
                eq = (a.rat - br).is_zero()
                # a symbolic scalar is generic: it differs from any given number
                return eq if isinstance(t.ops[0], (ast.Eq, ast.Is)) else not eq
            if isinstance(a, Rat) and isinstance(b, AScalar):
                eq = (a - b.rat).is_zero()
                return eq if isinstance(t.ops[0], (ast.Eq, ast.Is)) else not eq
            if isinstance(a, AObj) or isinstance(b, AObj):
                # python semantics: `==` uses __eq__ of either operand when defined (Expression.__eq__ builds a Constraint, which is truthy),
                # otherwise identity
                if isinstance(t.ops[0], (ast.Eq, ast.NotEq)):
                    for x, y in ((a, b), (b, a)):
                        if isinstance(x, AObj) and self.repo.cls(x.cls).find_method("__eq__") is not None:
                            r = self.invoke(x, "__eq__", [y])
                            truthy = r is not None and r is not False
                            return truthy if isinstance(t.ops[0], ast.Eq) else not truthy
                same = a is b
                return same if isinstance(t.ops[0], (ast.Eq, ast.Is)) else not same
            if isinstance(t.left, ast.Call) and call_name(t.left) == "type":
                v = self.ev(t.left.args[0], env)
                k = dotted(t.comparators[0])
                r = self.kind_of(v) == k
                return r if isinstance(t.ops[0], (ast.Eq, ast.Is)) else not r
        if isinstance(t, ast.Constant) and isinstance(t.value, bool):
            return t.value
        if isinstance(t, ast.Attribute) and t.attr == "_is_leaf":
            return self.ev(t, env)
        if isinstance(t, ast.Call) and call_name(t) == "get_is_leaf" and isinstance(t.func, ast.Attribute) and not t.args:
            o = self.ev(t.func.value, env)
            if isinstance(o, AObj):
                return bool(getattr(o, "leaf", False))
        if isinstance(t, ast.BoolOp) and all(isinstance(v, ast.Attribute) and v.attr == "_is_leaf" or
                                             (isinstance(v, ast.Call) and call_name(v) == "get_is_leaf") for v in t.values):
            vals = [self.truth(v, env) for v in t.values]
            return all(vals) if isinstance(t.op, ast.And) else any(vals)
        return super().truth(t, env)

    @staticmethod
    def kind_of(v):
        if isinstance(v, AObj):
            return v.cls
        if isinstance(v, AScalar):
            return v.kind
        if isinstance(v, ACons):
            return "Constraint"
        if isinstance(v, dict):
            return "dict"
        if isinstance(v, tuple):
            return "tuple"
        return type(v).__name__

    # -- expressions -----------------------------------------------------------------------------------
    def binop(self, op, a, b):
        if isinstance(a, AScalar) or isinstance(b, AScalar):
            if isinstance(a, (AScalar, Rat)) and isinstance(b, (AScalar, Rat)):
                kinds = [x.kind for x in (a, b) if isinstance(x, AScalar)]
                if "str" in kinds or "bytes" in kinds:
                    # python: number (+ - * /) str raises TypeError, except int * str (repetition), which is not a number either
                    raise Raised("TypeError", "unsupported operand type(s) for %s: %s and %s" % (type(op).__name__, self.kind_of(a), self.kind_of(b)))
                ra = a.rat if isinstance(a, AScalar) else a
                rb = b.rat if isinstance(b, AScalar) else b
                r = DictInterp.binop(self, op, ra, rb)
                if "complex" in kinds:
                    return AScalar(r, "complex")          # complex is contagious: a coefficient built from it is not a real number
                if isinstance(a, AScalar) and isinstance(b, AScalar):
                    kind = "float" if isinstance(op, ast.Div) or "float" in (a.kind, b.kind) else "int"
                    return AScalar(r, kind)
                return r          # coefficient arithmetic
        if isinstance(a, AObj) or isinstance(b, AObj):
            names = BINOPS.get(type(op))
            if names is None:
                raise Raised("TypeError", "operator %s" % type(op).__name__)
            if isinstance(a, AObj) and self.repo.cls(a.cls).find_method(names[0]) is not None:
                return self.invoke(a, names[0], [b])
            if isinstance(b, AObj) and self.repo.cls(b.cls).find_method(names[1]) is not None:
                return self.invoke(b, names[1], [a])
            raise Raised("TypeError", "unsupported operand kinds for %s: %s and %s" % (type(op).__name__, self.kind_of(a), self.kind_of(b)))
        return super().binop(op, a, b)

    def ev(self, e, env):
        if isinstance(e, ast.Name) and e.id == "NotImplemented" and "NotImplemented" not in env:
            return NOTIMPL          # the operator method declines: Python then asks the other operand (see `binary`)
        if isinstance(e, ast.Constant):
            v = e.value
            if isinstance(v, bool) or v is None or isinstance(v, str):
                return v
            if isinstance(v, int):
                return AScalar(to_rat(v), "int")
            if isinstance(v, float):
                return AScalar(to_rat(v), "float")
        if isinstance(e, ast.Attribute):
            if e.attr == "decomposition_dict":
                o = self.ev(e.value, env)
                if isinstance(o, AObj):
                    return o.dd
                raise Raised("AttributeError", "%s has no decomposition_dict" % self.kind_of(o))
            if e.attr == "_is_leaf":
                o = self.ev(e.value, env)
                if isinstance(o, AObj):
                    return bool(getattr(o, "leaf", False))
                raise Raised("AttributeError", "%s has no _is_leaf" % self.kind_of(o))
            if e.attr == "reuse_gradient":
                o = self.ev(e.value, env)
                if isinstance(o, AObj) and o.flag is not None:
                    return o.flag
                raise Raised("AttributeError", "reuse_gradient")
            o = self._try(e.value, env)
            if isinstance(o, AScalar):
                raise Raised("AttributeError", "a %s has no attribute %s" % (o.kind, e.attr))
            raise _Unknown("attribute %s" % src(e))
        if isinstance(e, ast.BoolOp) and all(isinstance(self._try(v, env), frozenset) for v in e.values):
            vals = [self.ev(v, env) for v in e.values]
            if isinstance(e.op, ast.And):
                return frozenset().union(*vals)
            return frozenset({("or",) + tuple(sorted(map(str, vals)))})
        if isinstance(e, ast.UnaryOp) and isinstance(e.op, ast.USub):
            v = self.ev(e.operand, env)
            if isinstance(v, AObj):
                return self.invoke(v, "__neg__", [])
            if isinstance(v, AScalar):
                return AScalar(-v.rat, v.kind)
            if isinstance(v, Rat):
                return -v
            raise Raised("TypeError", "unary minus on %s" % self.kind_of(v))
        if isinstance(e, ast.Compare) and len(e.ops) == 1 and type(e.ops[0]) in CMPOPS:
            a, b = self.ev(e.left, env), self.ev(e.comparators[0], env)
            if isinstance(a, AObj) or isinstance(b, AObj):
                names = CMPOPS[type(e.ops[0])]
                if isinstance(a, AObj) and self.repo.cls(a.cls).find_method(names[0]) is not None:
                    return self.invoke(a, names[0], [b])
                if isinstance(b, AObj) and self.repo.cls(b.cls).find_method(names[1]) is not None:
                    return self.invoke(b, names[1], [a])
                raise Raised("TypeError", "comparison")
        if isinstance(e, ast.Dict) and e.keys:
            out = {}
            for k, v in zip(e.keys, e.values):
                if k is None:
                    d0 = self.ev(v, env)          # {**a, **b}: the entries of a, then those of b -- a later entry replaces an earlier one
                    if not isinstance(d0, dict):
                        raise Raised("TypeError", "`**` of a %s" % self.kind_of(d0))
                    out.update(d0)
                    continue
                kk = self.ev(k, env)
                vv = self.ev(v, env)
                out[self._key(kk)] = vv.rat if isinstance(vv, AScalar) else vv
            return out
        if isinstance(e, ast.Call):
            nm = call_name(e)
            f = e.func
            if isinstance(f, ast.Name) and nm in DSL:
                return self.construct(nm, e, env)
            if isinstance(f, ast.Name) and nm == "Constraint":
                x = self.ev(get_arg(e, 0, "expression"), env)
                s_ = get_arg(e, 1, "equality_or_inequality")
                sense = self.ev(s_, env) if s_ is not None else None
                if not isinstance(x, AObj) or x.cls != "Expression":
                    raise Raised("TypeError", "Constraint of a %s" % self.kind_of(x))
                return ACons(x, sense)
            if isinstance(f, ast.Attribute) and nm.startswith("__") and nm.endswith("__"):
                o = self.ev(f.value, env) if not (isinstance(f.value, ast.Call) and call_name(f.value) == "super") else None
                if isinstance(o, AObj):
                    args = [self.ev(a, env) for a in e.args]
                    kwargs = {k.arg: self.ev(k.value, env) for k in e.keywords}
                    return self.invoke(o, nm, args, kwargs)
                if o is None and nm == "__hash__":
                    return AScalar(Rat(0), "int")
                if o is not None and not isinstance(o, AObj) and len(e.args) == 1 and isinstance(self.ev(e.args[0], env), AObj):
                    return NOTIMPL      # the special method of a built-in number / string does not know the DSL classes: it returns NotImplemented
            if isinstance(f, ast.Attribute) and nm.startswith("_") and not nm.startswith("__") and dotted(f.value) in ("self", "cls") + tuple(DSL):
                # a private helper of a DSL class called through self / the class: its body is followed
                owner = env.get("self") if dotted(f.value) == "self" else None
                cname = owner.cls if isinstance(owner, AObj) else (dotted(f.value) if dotted(f.value) in DSL else None)
                if cname is None:
                    for v0 in env.values():
                        if isinstance(v0, AObj):
                            cname = v0.cls
                            break
                c0 = self.repo.cls(cname) if cname else None
                m0 = c0.find_method(nm) if c0 is not None else None
                if m0 is not None and self.depth <= 8:
                    args = [self.ev(a, env) for a in e.args]
                    kwargs = {k.arg: self.ev(k.value, env) for k in e.keywords}
                    static = any(isinstance(d0, ast.Name) and d0.id == "staticmethod" for d0 in m0.decorator_list)
                    ps = params_of(m0)
                    env2 = {}
                    if not static:
                        if not isinstance(owner, AObj):
                            raise _Unknown("call %s" % src(e))
                        env2[ps[0]] = owner
                        ps = ps[1:]
                    for p0, a0 in zip(ps, args):
                        env2[p0] = a0
                    for k0, v0 in kwargs.items():
                        env2[k0] = v0
                    for p0, d0 in zip(ps[len(ps) - len(m0.args.defaults):], m0.args.defaults):
                        if p0 not in env2:
                            env2[p0] = self.ev(d0, {})
                    sub = OpInterp(self.repo, m0._module, self.depth + 1)
                    try:
                        sub.block(m0.body, env2)
                    except _Ret as r:
                        return r.v
                    return None
            if isinstance(f, ast.Name):
                r = self.repo.resolve_name(self.module, nm)
                if isinstance(r, ast.FunctionDef):
                    args = [self.ev(a, env) for a in e.args]
                    sub = OpInterp(self.repo, r._module, self.depth + 1)
                    return sub.call(r, args)
            if isinstance(f, ast.Name) and nm in ("float", "int") and len(e.args) == 1 and not e.keywords:
                v = self.ev(e.args[0], env)
                if isinstance(v, AScalar) and v.kind in ("int", "float", "bool"):
                    return AScalar(v.rat, nm)
                if isinstance(v, AScalar) and v.kind in ("str", "bytes"):
                    return AScalar(v.rat, nm)          # some strings are numerals: the conversion can succeed
                raise Raised("TypeError", "%s() of a %s" % (nm, self.kind_of(v)))
            if nm in ("type", "format"):
                return "<str>"
        return super().ev(e, env)

    def _try(self, v, env):
        try:
            return self.ev(v, env)
        except (Raised, _Unknown, AnalysisError):
            return None

    @staticmethod
    def _key(k):
        if isinstance(k, AScalar):
            n = k.rat.number() if k.rat.is_number() else None
            return int(n) if n is not None and n.denominator == 1 else k
        return k

    def construct(self, cname, e, env):
        leaf = get_arg(e, 0, "is_leaf")
        leaf_v = True if leaf is None else self.ev(leaf, env)
        if leaf_v is not False:
            raise LeafCreated("an operator builds `%s`: a new leaf (a new variable of the problem) instead of a combination" % src(e))
        dd = get_arg(e, 1, "decomposition_dict")
        d = self.ev(dd, env) if dd is not None else None
        if not isinstance(d, dict):
            raise Raised("AssertionError", "decomposition_dict is %s" % self.kind_of(d))
        flag = None
        if cname == "Function":
            fl = get_arg(e, 2, "reuse_gradient")
            flag = self.ev(fl, env) if fl is not None else frozenset({"<default False>"})
        return AObj(cname, d, flag)


def canon_pairs(d):
    """Merge mirrored inner-product keys (the inner product is symmetric)."""
    out = {}
    for k, v in d.items():
        if isinstance(k, tuple) and not isinstance(k, _Pair) and len(k) == 2:
            k = tuple(sorted(k, key=str))
        out[k] = out[k] + v if k in out else v
    return {k: v for k, v in out.items() if not (isinstance(v, Rat) and v.is_zero())}


def dicts_equal(a, b):
    a, b = canon_pairs(a), canon_pairs(b)
    if set(a) != set(b):
        return False
    return all(isinstance(a[k], Rat) and a[k].equals(b[k]) for k in a)
