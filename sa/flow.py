"""E3 -- path facts on structured Python code, computed on the syntax tree.

PEPit's core contains no goto-like constructs beyond return / raise / break / continue, so the flow graph
of every function is the structured one.  Three queries are provided:

* dominates(A, B)       every path from the function entry to statement B executes statement A first;
* path_counts(stmts)    for each way a statement list can complete (fall through, return, raise, break,
                        continue) the set of possible numbers of *events* met on a path (0, 1, 2 = "2 or more");
* exits(fn)             the return / raise statements of a function plus the implicit fall-through.

Only the statement kinds the repository uses are modelled; anything else raises AnalysisError.
"""
import ast
from .model import AnalysisError, block_of

MANY = 2


def _ancestors_stmt_chain(stmt):
    """[(container node, field, list, stmt-in-list)] from innermost to outermost."""
    out = []
    cur = stmt
    while cur is not None and not isinstance(cur, (ast.FunctionDef, ast.Module, ast.ClassDef)):
        if isinstance(cur, ast.stmt):
            b = block_of(cur)
            if b is None:
                break
            out.append((b[0], b[1], b[2], cur))
            cur = b[0]
            if isinstance(cur, ast.ExceptHandler):
                # the handler belongs to a Try statement
                cur = getattr(cur, "_parent", None)
        else:
            cur = getattr(cur, "_parent", None)
    return out


def _unconditional_in(compound, target):
    """Is `target` executed whenever `compound` starts executing and reaches its end normally?"""
    if compound is target:
        return True
    if isinstance(compound, ast.With):
        for s in compound.body:
            if _contains(s, target):
                return _unconditional_in(s, target)
        return False
    return False


def _contains(node, target):
    if node is target:
        return True
    for n in ast.walk(node):
        if n is target:
            return True
    return False


def dominates(a, b):
    """Structured dominance between two statements of the same function."""
    if a is b:
        return True
    chain_b = _ancestors_stmt_chain(b)
    for (_cont, _field, lst, sb) in chain_b:
        for idx, s in enumerate(lst):
            if s is sb:
                break
            if _contains(s, a):
                return _unconditional_in(s, a)
        # a may be inside sb itself (deeper), handled by an inner level of the chain
    return False


def precedes_in_block(a, b):
    """a and b in the same statement list with a before b."""
    ba, bb = block_of(a), block_of(b)
    if ba is None or bb is None or ba[2] is not bb[2]:
        return False
    ia = [i for i, s in enumerate(ba[2]) if s is a][0]
    ib = [i for i, s in enumerate(bb[2]) if s is b][0]
    return ia < ib


def in_loop(stmt, stop=None):
    cur = getattr(stmt, "_parent", None)
    while cur is not None and cur is not stop and not isinstance(cur, (ast.FunctionDef, ast.Module)):
        if isinstance(cur, (ast.For, ast.While)):
            return cur
        cur = getattr(cur, "_parent", None)
    return None


def conditions_guarding(stmt, stop=None):
    """List of (test node, branch) pairs of the `if` statements enclosing stmt (innermost first)."""
    out = []
    cur = stmt
    while True:
        p = getattr(cur, "_parent", None)
        if p is None or p is stop or isinstance(p, (ast.FunctionDef, ast.Module)):
            break
        if isinstance(p, ast.If):
            if any(s is cur for s in p.body):
                out.append((p.test, True, p))
            elif any(s is cur for s in p.orelse):
                out.append((p.test, False, p))
        cur = p
    return out


def effective_guards(stmt, stop=None):
    """conditions_guarding plus the guard clauses that precede the statement (or one of its ancestors) in its block:
    `if T: return / raise / continue / break` before it contributes (T, False), `if T: ... else: <exit>` contributes (T, True)."""
    out = []
    cur = stmt
    while True:
        p = getattr(cur, "_parent", None)
        if p is None:
            break
        for field in ("body", "orelse", "finalbody"):
            blk = getattr(p, field, None)
            if isinstance(blk, list) and any(x is cur for x in blk):
                for x in blk:
                    if x is cur:
                        break
                    if isinstance(x, ast.If):
                        body_exits = _always_exits(x.body)
                        else_exits = bool(x.orelse) and _always_exits(x.orelse)
                        if body_exits and not else_exits:
                            out.append((x.test, False, x))
                        elif else_exits and not body_exits:
                            out.append((x.test, True, x))
        if p is stop:
            break
        if isinstance(p, ast.If):
            if any(x is cur for x in p.body):
                out.append((p.test, True, p))
            elif any(x is cur for x in p.orelse):
                out.append((p.test, False, p))
        if isinstance(p, (ast.FunctionDef, ast.Module)):
            break
        cur = p
    return out


def _always_exits(stmts):
    pc = path_counts(stmts, lambda n: False)
    return bool(pc) and "next" not in pc


def _cap(n):
    return n if n < MANY else MANY


def _add(sets, k):
    return {_cap(c + k) for c in sets}


def _expr_events(node, ev):
    """Number of event expressions directly inside a statement's own expressions (not nested statements)."""
    n = 0
    stack = [node]
    while stack:
        x = stack.pop()
        for c in ast.iter_child_nodes(x):
            if isinstance(c, ast.stmt) or isinstance(c, ast.ExceptHandler):
                continue
            if ev(c):
                n += 1
            stack.append(c)
    return n


def path_counts(stmts, ev, stmt_ev=None):
    """kind -> set of event counts.  ev(node) marks expression events, stmt_ev(stmt) statement events."""
    res = {}
    cur = {0}
    for s in stmts:
        if not cur:
            break
        r = _stmt_counts(s, ev, stmt_ev)
        for kind, counts in r.items():
            combined = set()
            for c0 in cur:
                combined |= _add(counts, c0)
            if kind == "next":
                nxt = combined
            else:
                res.setdefault(kind, set()).update(combined)
        cur = nxt if "next" in r else set()
        nxt = set()
    if cur:
        res.setdefault("next", set()).update(cur)
    return res


def _stmt_counts(s, ev, stmt_ev):
    own = 0
    if stmt_ev is not None and stmt_ev(s):
        own += 1
    if isinstance(s, (ast.Expr, ast.Assign, ast.AugAssign, ast.AnnAssign, ast.Pass, ast.Import, ast.ImportFrom,
                      ast.Delete, ast.Global, ast.Nonlocal)):
        return {"next": {_cap(own + _expr_events(s, ev))}}
    if isinstance(s, (ast.FunctionDef, ast.ClassDef)):
        return {"next": {_cap(own)}}
    if isinstance(s, ast.Return):
        return {"return": {_cap(own + _expr_events(s, ev))}}
    if isinstance(s, ast.Raise):
        return {"raise": {_cap(own + _expr_events(s, ev))}}
    if isinstance(s, ast.Break):
        return {"break": {own}}
    if isinstance(s, ast.Continue):
        return {"continue": {own}}
    if isinstance(s, ast.Assert):
        k = _cap(own + _expr_events(s, ev))
        return {"next": {k}, "raise": {k}}
    if isinstance(s, ast.If):
        t = own + _expr_events_of(s.test, ev)
        out = {}
        for branch in (s.body, s.orelse):
            r = path_counts(branch, ev, stmt_ev) if branch else {"next": {0}}
            for kind, counts in r.items():
                out.setdefault(kind, set()).update(_add(counts, t))
        return out
    if isinstance(s, (ast.For, ast.While)):
        head = own + (_expr_events_of(s.iter, ev) if isinstance(s, ast.For) else _expr_events_of(s.test, ev))
        body = path_counts(s.body, ev, stmt_ev)
        out = {}
        per_iter = set()
        for kind in ("next", "continue"):
            per_iter |= body.get(kind, set())
        # zero iterations, one iteration, several iterations
        total = {0}
        if per_iter:
            total |= per_iter
            if any(c > 0 for c in per_iter):
                total.add(MANY)
        brk = body.get("break", set())
        if brk:
            total |= brk
            if any(c > 0 for c in per_iter):
                total.add(MANY)
        after = set()
        orelse = path_counts(s.orelse, ev, stmt_ev) if s.orelse else {"next": {0}}
        for kind, counts in orelse.items():
            for c0 in total:
                out.setdefault(kind, set()).update(_add(counts, c0 + head))
        for kind in ("return", "raise"):
            if kind in body:
                extra = set(body[kind])
                if any(c > 0 for c in per_iter):
                    extra.add(MANY)
                    extra |= {_cap(c + 1) for c in body[kind]}
                out.setdefault(kind, set()).update(_add(extra, head))
        return out
    if isinstance(s, ast.With):
        head = own + sum(_expr_events_of(i.context_expr, ev) for i in s.items)
        r = path_counts(s.body, ev, stmt_ev)
        return {k: _add(v, head) for k, v in r.items()}
    if isinstance(s, ast.Try):
        body = path_counts(s.body, ev, stmt_ev)
        out = {}
        mx = 0
        for v in body.values():
            mx = max(mx, max(v))
        prefix = set(range(0, mx + 1))
        normal = set(body.get("next", set()))
        if s.orelse and normal:
            r = path_counts(s.orelse, ev, stmt_ev)
            new_normal = set()
            for kind, counts in r.items():
                comb = set()
                for c0 in normal:
                    comb |= _add(counts, c0)
                if kind == "next":
                    new_normal |= comb
                else:
                    out.setdefault(kind, set()).update(comb)
            normal = new_normal
        for kind, v in body.items():
            if kind != "next":
                out.setdefault(kind, set()).update(v)
        for h in s.handlers:
            r = path_counts(h.body, ev, stmt_ev)
            for kind, counts in r.items():
                comb = set()
                for c0 in prefix:
                    comb |= _add(counts, c0)
                if kind == "next":
                    normal |= comb
                else:
                    out.setdefault(kind, set()).update(comb)
        if s.finalbody:
            r = path_counts(s.finalbody, ev, stmt_ev)
            fin = r.get("next", {0})
            out = {k: set().union(*[_add(fin, c) for c in v]) for k, v in out.items()}
            normal = set().union(*[_add(fin, c) for c in normal]) if normal else set()
            for kind, counts in r.items():
                if kind != "next":
                    out.setdefault(kind, set()).update(counts)
        if normal:
            out["next"] = normal
        if own:
            out = {k: _add(v, own) for k, v in out.items()}
        return out
    raise AnalysisError("statement kind %s not modelled by the flow analysis (line %s)"
                        % (type(s).__name__, getattr(s, "lineno", "?")))


def _expr_events_of(expr, ev):
    if expr is None:
        return 0
    n = 1 if ev(expr) else 0
    for c in ast.walk(expr):
        if c is not expr and ev(c):
            n += 1
    return n


def exits(fn):
    """[(kind, stmt or None)]: every return / raise statement, plus ('fallthrough', None) when reachable."""
    out = []
    for n in ast.walk(fn):
        if isinstance(n, ast.FunctionDef) and n is not fn:
            continue
        if isinstance(n, ast.Return) and _owner_fn(n) is fn:
            out.append(("return", n))
        elif isinstance(n, ast.Raise) and _owner_fn(n) is fn:
            out.append(("raise", n))
    pc = path_counts(fn.body, lambda n: False)
    if "next" in pc:
        out.append(("fallthrough", None))
    return out


def _owner_fn(node):
    cur = getattr(node, "_parent", None)
    while cur is not None and not isinstance(cur, (ast.FunctionDef, ast.Lambda)):
        cur = getattr(cur, "_parent", None)
    return cur


def stmts_of(fn, kinds=None):
    """All statements of fn (not of nested functions)."""
    out = []
    stack = list(fn.body)
    while stack:
        s = stack.pop(0)
        if kinds is None or isinstance(s, kinds):
            out.append(s)
        if isinstance(s, (ast.FunctionDef, ast.ClassDef)):
            continue
        for field in ("body", "orelse", "finalbody"):
            stack.extend(getattr(s, field, []) or [])
        if isinstance(s, ast.Try):
            for h in s.handlers:
                stack.extend(h.body)
    return out


def always_raises(stmts):
    """Every path through stmts ends in raise (no fall-through, return, break or continue)."""
    pc = path_counts(stmts, lambda n: False)
    return set(pc.keys()) <= {"raise"} and "raise" in pc


def closed_chain(if_stmt):
    """For an if/elif/.../else chain: list of (test, body) and the final else body ([] when missing)."""
    arms = []
    cur = if_stmt
    while True:
        arms.append((cur.test, cur.body))
        if len(cur.orelse) == 1 and isinstance(cur.orelse[0], ast.If):
            cur = cur.orelse[0]
            continue
        return arms, cur.orelse


def stmts_of_block(compound):
    """All statements nested inside a compound statement (excluding itself)."""
    out = []
    for field in ("body", "orelse", "finalbody"):
        for s in getattr(compound, field, []) or []:
            out.append(s)
            out.extend(stmts_of_block(s))
    if isinstance(compound, ast.Try):
        for h in compound.handlers:
            for s in h.body:
                out.append(s)
                out.extend(stmts_of_block(s))
    return out


# ---------------------------------------------------------------------------------------------------
# loop nests as generator lists: nested for / itertools.product / pre-computed lists of index tuples / local aliases
# ---------------------------------------------------------------------------------------------------
def _single_def(fn, name):
    defs = [s for s in stmts_of(fn, ast.Assign) if len(s.targets) == 1 and isinstance(s.targets[0], ast.Name) and s.targets[0].id == name]
    stores = [n for n in ast.walk(fn) if isinstance(n, ast.Name) and isinstance(n.ctx, ast.Store) and n.id == name]
    return defs[0].value if len(defs) == 1 and len(stores) == 1 else None


class _Rename(ast.NodeTransformer):
    def __init__(self, ren):
        self.ren = ren

    def visit_Name(self, node):
        if node.id in self.ren:
            return ast.Name(id=self.ren[node.id], ctx=node.ctx)
        return node


def loop_generators(stmt, fn):
    """[(target name or None, iterable expression, defining node)] of the loops enclosing a statement, outermost first, with
    `for a, b in product(X, Y)` / `product(X, repeat=2)` split into one generator per component, `for k, l in PAIRS` where PAIRS is a local bound once
    to `[(k, l) for k in A for l in B]` replaced by the generators of that comprehension (renamed to the loop's targets), and iterables that are
    single-assignment locals replaced by their definition.  Returns None when a loop is not understood."""
    from .model import clone, call_name
    loops = []
    cur = stmt
    while True:
        lp = in_loop(cur)
        if lp is None:
            break
        loops.insert(0, lp)
        cur = lp
    out = []

    def resolve(e, depth=0):
        if isinstance(e, ast.Name) and depth < 4:
            d = _single_def(fn, e.id)
            if d is not None and not isinstance(d, (ast.Constant,)):
                return resolve(d, depth + 1)
        return e
    for lp in loops:
        if not isinstance(lp, ast.For):
            return None
        it = resolve(lp.iter)
        tg = lp.target
        if isinstance(it, ast.Call) and call_name(it) == "product" and isinstance(tg, ast.Tuple):
            rep = [k for k in it.keywords if k.arg == "repeat"]
            comps = list(it.args)
            if rep and isinstance(rep[0].value, ast.Constant) and isinstance(rep[0].value.value, int):
                comps = comps * rep[0].value.value
            if len(comps) != len(tg.elts) or not all(isinstance(e, ast.Name) for e in tg.elts):
                return None
            for e, c in zip(tg.elts, comps):
                out.append((e.id, resolve(c), lp))
            continue
        if isinstance(it, ast.ListComp) and isinstance(tg, ast.Tuple) and isinstance(it.elt, ast.Tuple) and len(it.elt.elts) == len(tg.elts) \
                and all(isinstance(e, ast.Name) for e in it.elt.elts) and all(isinstance(e, ast.Name) for e in tg.elts) \
                and all(isinstance(g.target, ast.Name) and not g.ifs for g in it.generators) \
                and [e.id for e in it.elt.elts] == [g.target.id for g in it.generators]:
            ren = {g.target.id: e.id for g, e in zip(it.generators, tg.elts)}
            for g, e in zip(it.generators, tg.elts):
                out.append((e.id, _Rename(ren).visit(clone(g.iter)), lp))
            continue
        if isinstance(tg, ast.Name):
            out.append((tg.id, it, lp))
            continue
        out.append((None, it, lp))
    return out


def specialise(stmts, decide):
    """Partial evaluation of a statement list under a three-valued decision of its tests: decided `if`s are replaced by the arm taken, undecided
    ones are kept with both arms specialised, statements after a certain continue / break / return / raise are dropped.
    -> (statements, certainly_terminated)"""
    out = []
    for s in stmts:
        if isinstance(s, ast.If):
            d = decide(s.test)
            if d is True or d is False:
                sub, term = specialise(s.body if d else s.orelse, decide)
                out += sub
                if term:
                    return out, True
                continue
            b1, t1 = specialise(s.body, decide)
            b2, t2 = specialise(s.orelse, decide)
            n = ast.If(test=s.test, body=b1 or [ast.Pass()], orelse=b2)
            ast.copy_location(n, s)
            n._parent = getattr(s, "_parent", None)
            out.append(n)
            if t1 and t2:
                return out, True
            continue
        out.append(s)
        if isinstance(s, (ast.Continue, ast.Break, ast.Return, ast.Raise)):
            return out, True
    return out, False
