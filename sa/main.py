"""Driver: ./check <property> [--tier quick|thorough] [--replay report.json]

exit 0  every obligation discharged on the current /repo tree (known findings printed as KNOWN-FINDING lines)
exit 1  VIOLATION property=<id> replay=<report>   an obligation fails at a construct known_findings.json does not list
exit 2  ANALYSIS-ERROR   an anchor could not be resolved / a count fell below its floor / construct outside the fragment
"""
import sys
import os
import time
import json
import importlib
import traceback

from .model import Repo, AnalysisError
from . import core


def main(argv):
    try:
        import signal
        signal.signal(signal.SIGPIPE, signal.SIG_DFL)
    except Exception:
        pass
    if not argv:
        print(__doc__)
        return 2
    prop = argv[0].upper()
    tier = os.environ.get("VERIF_TIER", "quick")
    replay = None
    i = 1
    while i < len(argv):
        if argv[i] == "--tier":
            tier = argv[i + 1]
            i += 2
        elif argv[i] == "--replay":
            replay = argv[i + 1]
            i += 2
        else:
            i += 1
    if tier not in ("quick", "thorough"):
        tier = "quick"
    if replay:
        with open(replay) as fh:
            rep = json.load(fh)
        for v in rep.get("violations", []):
            print("%s %s :: %s\n    at %s\n    %s" % (rep["property"], v["rule"], v["construct"], v["where"], v["detail"]))
        # a replay re-runs the check on the current tree as well
    try:
        seed = int(os.environ.get("VERIF_SEED", "0"))
    except ValueError:
        seed = 0
    t0 = time.time()
    try:
        mod = importlib.import_module("sa.rules.%s" % prop.lower())
    except ModuleNotFoundError:
        print("ANALYSIS-ERROR property=%s no check registered" % prop)
        return 2
    except Exception:
        traceback.print_exc()
        print("ANALYSIS-ERROR property=%s the checker module cannot be loaded" % prop)
        return 2
    try:
        repo = Repo()
        ctx = core.Ctx(prop, repo, tier)
        known = core.load_known()
        try:
            mod.run(ctx)
        except AnalysisError:
            # a construct outside the analysed fragment stops the analysis; violations already established are reported first
            viol, kf = core.triage(ctx, known)
            if not viol:
                raise
            ctx.notes.append("analysis stopped early on a construct outside the analysed fragment; the violations found before that point are reported")
        viol, kf = core.triage(ctx, known)
        if not viol:
            # an instance count below its floor is an analysis hole (exit 2) -- unless a violation was already found, which is reported first
            for name, measured, floor in ctx.floors:
                if measured < floor:
                    raise AnalysisError("instance count of '%s' is %d, below the floor %d confirmed on the reference tree"
                                        % (name, measured, floor))
            if tier == "thorough":
                from . import selftest, variants
                selftest.run_selftest(ctx, seed, variants.variants_for(prop))
    except AnalysisError as e:
        print("ANALYSIS-ERROR property=%s %s" % (prop, e))
        return 2
    except Exception:
        traceback.print_exc()
        print("ANALYSIS-ERROR property=%s internal error in the checker (see traceback)" % prop)
        return 2
    wall = time.time() - t0
    ctx.assumptions = list(getattr(mod, "ASSUMPTIONS", []))
    scratch = bool(os.environ.get("VERIF_NO_EVIDENCE"))
    if not scratch:
        core.write_evidence(ctx, getattr(mod, "LEVEL", "other"), seed, wall, viol, kf,
                            getattr(mod, "EXPLANATION", ""), list(getattr(mod, "TRUSTED", [])),
                            extra=getattr(ctx, "extra", None))
    n_ok = sum(1 for o in ctx.obligations if o.ok)
    print("%s: %d obligations, %d discharged, %d known finding(s), %d violation(s); analysed %s; %.2fs"
          % (prop, len(ctx.obligations), n_ok, len(kf), len(viol),
             ", ".join("%s=%s" % kv for kv in sorted(ctx.analysed.items())), wall))
    for o in kf:
        print("KNOWN-FINDING: property=%s %s %s -- %s [%s]" % (prop, o.rule, o.key, o.msg, o.where))
    if viol:
        path = os.path.join(core.VERIF, "out", "%s.report.json" % prop) if scratch else core.write_report(ctx, viol)
        for o in viol:
            print("  FAIL %s %s\n       at %s\n       %s" % (o.rule, o.key, o.where, o.msg))
        print("VIOLATION property=%s replay=%s" % (prop, os.path.relpath(path, core.VERIF)))
        return 1
    return 0


if __name__ == "__main__":
    sys.exit(main(sys.argv[1:]))
