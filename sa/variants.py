"""E5 variant table: single-site edits of PEPit used to test the checker both ways (thorough tier).

Each entry: (id, [properties whose check must FIRE], file, old text, new text, rule expected in the report).
An empty property list means the edit is behaviour-preserving: every check listed in `silent_for` must stay silent.
Anchors are matched exactly once in the file; an entry whose anchor is not found on the current tree is skipped
(the tree under test may already differ there)."""

F = "PEPit/function.py"
P = "PEPit/pep.py"
CV = "PEPit/wrappers/cvxpy_wrapper.py"
MK = "PEPit/wrappers/mosek_wrapper.py"
WR = "PEPit/wrapper.py"
EX = "PEPit/expression.py"
PT = "PEPit/point.py"
TR = "PEPit/tools/expressions_to_matrices.py"
DO = "PEPit/tools/dict_operations.py"
BP = "PEPit/block_partition.py"

BREAK = [
    # ---- the stores of a weighted sum as a system, the public entry, the constraint constructor, the tables of a hook that fills its own
    ("oracle-second-value", ["C07"], F, "        if associated_grad_and_function_val and not self.reuse_gradient:\n            f = associated_grad_and_function_val[-1]",
     "        if associated_grad_and_function_val and not self.reuse_gradient:\n            f = Expression()", "R-FUNCSYS"),
    ("remainder-value-sign", ["C07"], F, "value_of_last_leaf_function = value_of_last_leaf_function - weight * val", "value_of_last_leaf_function = value_of_last_leaf_function + weight * val", "R-FUNCSYS"),
    ("lookup-by-identity", ["C07"], F, "if triplet[0].decomposition_dict == point_decomposition_dict:", "if triplet[0] is point:", "R-FUNCSYS"),
    ("entry-reuses-backend", ["C13"], P, "        wrapper = WRAPPERS[wrapper_name](verbose=verbose)\n\n        # Check",
     "        wrapper = self.wrapper if self.wrapper is not None and self.wrapper_name == wrapper_name else WRAPPERS[wrapper_name](verbose=verbose)\n\n        # Check", "R-ENTRY"),
    ("entry-fallback-keeps-mosek", ["C11"], P, "            wrapper_name = \"cvxpy\"\n            wrapper = WRAPPERS[wrapper_name](verbose=verbose)", "            wrapper_name = \"cvxpy\"", "R-ENTRY"),
    ("constraint-normalised-sign", ["C06"], "PEPit/constraint.py", "        self.expression = expression\n",
     "        self.expression = -expression if expression.decomposition_dict.get(1, 0) > 0 else expression\n", "R-CONSCTOR"),
    ("block-table-row-by-second-sample", ["C17"], "PEPit/functions/block_smooth_convex_function.py", "tables_of_constraints[k][i].append(constraint)", "tables_of_constraints[k][j].append(constraint)", "R-HOOKTABLE"),
    ("block-name-function-id-lost", ["C17"], "PEPit/functions/block_smooth_convex_function.py", "        if function_id is None:", "        if function_id is not None:", "R-HOOKTABLE"),
    # ---- class formulas (C03 tightenings also break C04; relaxations break C04 only)
    ("ssc-denominator", ["C03", "C04"], "PEPit/functions/smooth_strongly_convex_function.py", "(1 - self.mu / self.L)", "(1 - 2 * self.mu / self.L)", "R-FORMULA"),
    ("qg-factor", ["C03", "C04"], "PEPit/functions/convex_qg_function.py", "1 / (2 * self.L) * gj ** 2", "1 / self.L * gj ** 2", "R-FORMULA"),
    ("cocoercive-beta2", ["C03", "C04"], "PEPit/operators/cocoercive.py", "- self.beta * (gi - gj) ** 2 >= 0", "- 2 * self.beta * (gi - gj) ** 2 >= 0", "R-FORMULA"),
    ("lipschitz-sense", ["C03", "C04"], "PEPit/operators/lipschitz.py", "(xi - xj) ** 2 <= 0", "(xi - xj) ** 2 >= 0", "R-FORMULA"),
    ("linear-T2-entry", ["C03", "C04"], "PEPit/operators/linear.py", "T2[i, j] = (self.L ** 2) * ui * uj - vi * vj", "T2[i, j] = (self.L ** 2) * ui * uj - vi * uj", "R-FORMULA"),
    ("support-operand", ["C03", "C04"], "PEPit/functions/convex_support_function.py", "constraint = (xj * (gi - gj) <= 0)", "constraint = (xi * (gi - gj) <= 0)", "R-FORMULA"),
    ("indicator-value", ["C03", "C04"], "PEPit/functions/convex_indicator.py", "constraint = (fi == 0)", "constraint = (fi <= 0)", "R-FORMULA"),
    ("strongly-convex-relax", ["C04"], "PEPit/functions/strongly_convex_function.py", "self.mu / 2 * (xi - xj) ** 2", "self.mu / 4 * (xi - xj) ** 2", "R-FORMULA"),
    ("smooth-symmetry-flag", ["C04"], "PEPit/functions/smooth_convex_function.py",
     "                                                      self.set_smoothness_convexity_constraint_i_j,\n                                                      )",
     "                                                      self.set_smoothness_convexity_constraint_i_j,\n                                                      symmetry=True,\n                                                      )", "R-SYM"),
    ("skip-by-position", ["C04"], F, "if point_i is point_j or (i > j and symmetry):", "if i == j or (i > j and symmetry):", "R-SKIP"),
    ("skip-by-point", ["C04"], F, "if point_i is point_j or (i > j and symmetry):", "if xi is xj or (i > j and symmetry):", "R-SKIP"),
    ("skip-halving-other-half", ["C04"], F, "if point_i is point_j or (i > j and symmetry):", "if point_i is point_j or (i != j and symmetry):", "R-SKIP"),
    ("generator-slice", ["C04"], F, "for j, point_j in enumerate(list_of_points_2):", "for j, point_j in enumerate(list_of_points_2[:-1]):", "R-ONE"),
    ("qg-no-stationary", ["C04"], "PEPit/functions/convex_qg_function.py",
     "        if self.list_of_stationary_points == list():\n            self.stationary_point()\n", "", "R-STATPAIR"),
    ("indicator-guard-flipped", ["C04"], "PEPit/functions/convex_indicator.py", "if self.D != np.inf:", "if self.D == np.inf:", "R-FORMULA"),
    ("regen-cached", ["C04", "C13"], F, "        self.list_of_class_constraints = list()\n        self.list_of_class_psd = list()\n        self.add_class_constraints()",
     "        if not self.list_of_class_constraints:\n            self.list_of_class_constraints = list()\n            self.list_of_class_psd = list()\n            self.add_class_constraints()", None),
    # ---- certificate (C01)
    ("untracked-class-constraint", ["C01"], P, "                wrapper.send_constraint_to_solver(constraint)\n                self._list_of_constraints_sent_to_wrapper.append(constraint)\n\n            if verbose:\n                print('\\t\\t\\tFunction', function_counter, ':', len(function.list_of_class_constraints),",
     "                wrapper.send_constraint_to_solver(constraint)\n\n            if verbose:\n                print('\\t\\t\\tFunction', function_counter, ':', len(function.list_of_class_constraints),", "R-SOLVEPROG"),
    ("dual-zip-offset", ["C01", "C11"], WR, "dual_values[1:]):", "dual_values):", "R-TRACK"),
    ("cvxpy-cursor-start", ["C01"], CV, "        counter = 1\n", "        counter = 0\n", "R-SLOTS"),
    ("cvxpy-skip-size", ["C01"], CV, "                counter += size\n", "                counter += size - 1\n", "R-SLOTS"),
    ("cvxpy-psd-last", ["C01"], CV, "cvxpy_constraints_list = [M >> 0]", "cvxpy_constraints_list = []", "R-SLOTS"),
    ("sign-scalar", ["C01"], P, "constraints_combination += constraint.eval_dual() * constraint.expression", "constraints_combination -= constraint.eval_dual() * constraint.expression", "R-SIGN"),
    ("sign-lmi", ["C01"], P, "constraints_combination -= np.sum(psd_matrix.eval_dual() * psd_matrix.matrix_of_expressions)", "constraints_combination += np.sum(psd_matrix.eval_dual() * psd_matrix.matrix_of_expressions)", "R-SIGN"),
    ("dual-returns-primal", ["C01", "C14"], P, '        if return_primal_or_dual == "dual":\n            return dual_objective', '        if return_primal_or_dual == "dual":\n            return wc_value', "R-RET"),
    ("class-lmi-unsymmetrised", ["C01"], "PEPit/operators/symmetric_linear.py", "PSDMatrix(matrix_of_expressions=(T + T.T) / 2)", "PSDMatrix(matrix_of_expressions=T)", "R-LMIDUAL"),
    ("mosek-dual-sign", ["C01", "C11"], MK, "dual_values.append(-self._get_Gram_from_mosek(self.task.getbarsj(mosek.soltype.itr, counter_psd),", "dual_values.append(self._get_Gram_from_mosek(self.task.getbarsj(mosek.soltype.itr, counter_psd),", "R-MOSEKDUAL"),
    # ---- primal instance (C02)
    ("leaf-index-shift", ["C02"], P, "point._value = points_values[:, point.counter]\n        for expression", "point._value = points_values[:, point.counter - 1]\n        for expression", "R-LEAFREG"),
    ("expr-eval-double", ["C02"], EX, "value += weight * np.dot(point1.eval(), point2.eval())", "value += 2 * weight * np.dot(point1.eval(), point2.eval())", "R-EVALSHAPE"),
    ("objective-ge-metric", ["C02", "C05"], P, "(self.objective <= performance_metric)", "(self.objective >= performance_metric)", "R-SOLVEPROG"),
    ("clip-under-verbose", ["C02", "C12"], P, "                      \" matrix onto the cone of symmetric semi-definite matrix.\\033[0m\".format(np.min(eig_val)))\n            eig_val = np.maximum(eig_val, 0)",
     "                      \" matrix onto the cone of symmetric semi-definite matrix.\\033[0m\".format(np.min(eig_val)))\n                eig_val = np.maximum(eig_val, 0)", None),
    ("publish-before-heuristic", ["C02", "C14"], P, "        G_value, F_value = wrapper.get_primal_variables()\n\n        # Perform a dimension reduction if required",
     "        G_value, F_value = wrapper.get_primal_variables()\n        self.G_value = G_value\n\n        # Perform a dimension reduction if required", "R-PRIMALFLOW"),
    # ---- declared model (C05)
    ("drop-function-psd-filter", ["C05"], P, "if len(function.list_of_constraints) > 0 or len(function.list_of_psd) > 0]", "if len(function.list_of_constraints) > 0]", "R-SOLVEPROG"),
    ("initial-conditions-slice", ["C05"], P, "        for condition in self.list_of_constraints:\n            wrapper.send_constraint_to_solver(condition)", "        for condition in self.list_of_constraints[1:]:\n            wrapper.send_constraint_to_solver(condition)", "R-SOLVEPROG"),
    ("cvxpy-equality-as-inequality", ["C05", "C11"], CV, "cvxpy_constraint = self._expression_to_solver(constraint.expression) == 0", "cvxpy_constraint = self._expression_to_solver(constraint.expression) <= 0", "R-SENSE"),
    ("ge-not-flipped", ["C05", "C06"], EX, "        return -self <= -other", "        return self <= other", None),
    ("dense-half-weight", ["C05"], TR, "                Gweights[point1.counter, point2.counter] = weight\n", "                Gweights[point1.counter, point2.counter] = weight / 2\n", "R-TRANSL"),
    ("sparse-no-halving", ["C05", "C11"], TR, "                    Gweights_val.append((weight + weight_sym) / 2)\n                    Gweights_indi.append(max(point1.counter, point2.counter))", "                    Gweights_val.append(weight + weight_sym)\n                    Gweights_indi.append(max(point1.counter, point2.counter))", "R-TRANSL"),
    ("sparse-upper-triangle", ["C05", "C11"], TR, "Gweights_indi.append(max(point1.counter, point2.counter))\n                    Gweights_indj.append(min(point1.counter, point2.counter))", "Gweights_indi.append(min(point1.counter, point2.counter))\n                    Gweights_indj.append(max(point1.counter, point2.counter))", "R-TRANSL"),
    ("mosek-inequality-bound-sign", ["C05", "C11"], MK, "self.task.putconbound(nb_cons, mosek.boundkey.up, -inf, -alpha_val)", "self.task.putconbound(nb_cons, mosek.boundkey.up, -inf, alpha_val)", "R-MOSEKPROG"),
    ("mosek-coupling-offdiag", ["C05", "C11"], MK, "-.5 * (i != j) - 1 * (i == j)", "-1 * (i != j) - 1 * (i == j)", "R-MOSEKPROG"),
    ("cvxpy-minimize", ["C05", "C11"], CV, "self.prob = cp.Problem(objective=cp.Maximize(cvxpy_objective)", "self.prob = cp.Problem(objective=cp.Minimize(cvxpy_objective)", "R-OBJSENSE"),
    # ---- found by the mutation survey (tools/mutation_survey.py): MOSEK task programs, translators, declaration and return rules
    ("mosek-scalar-counter-backwards", ["C01", "C11"], MK, "                counter_scalar += 1", "                counter_scalar -= 1", "R-MOSEKDUAL"),
    ("mosek-psd-counter-stuck", ["C01", "C11"], MK, "                counter_psd += 1\n", "                pass\n", "R-MOSEKDUAL"),
    ("mosek-residual-second-entry", ["C01", "C11"], MK, "residual = dual_values[0]", "residual = dual_values[1]", "R-MOSEKDUAL"),
    ("mosek-optimize-dropped", ["C02", "C11"], MK, "        self.task.optimize(**kwargs)", "        pass", "R-SOLVECALL"),
    ("cvxpy-solve-dropped", ["C02", "C11"], CV, "        self.prob.solve(**kwargs)", "        pass", "R-SOLVECALL"),
    ("mosek-row-not-appended", ["C05", "C11"], MK, "                # add a constraint in mosek\n                self.task.appendcons(1)", "                # add a constraint in mosek\n                pass", "R-MOSEKPROG"),
    ("mosek-lmi-coupling-dropped", ["C05", "C11"], MK, "                self.task.putbaraij(nb_cons, psd_matrix.counter + 1, [sym_A2], [1.0])", "                pass", "R-MOSEKPROG"),
    ("mosek-heuristic-weight-rows", ["C11", "C14"], MK, "W_i = No_zero_ele[:, 0]", "W_i = No_zero_ele[:, 1]", "R-HEUROBJ"),
    ("mosek-unpack-returns-nothing", ["C02", "C11"], MK, "                counter += 1\n        return G", "                counter += 1\n        return None", "R-TRILORDER"),
    ("dense-leaf-sign", ["C05", "C11"], TR, "Fweights[expression.counter] += 1", "Fweights[expression.counter] -= 1", "R-TRANSLPROG"),
    ("dense-symmetrisation-doubled", ["C05", "C11"], TR, "Gweights = (Gweights + Gweights.T) / 2", "Gweights = (Gweights + Gweights.T) * 2", "R-TRANSLPROG"),
    ("sparse-leaf-weight-zero", ["C05", "C11"], TR, "        Fweights_val.append(1)", "        Fweights_val.append(0)", "R-TRANSLPROG"),
    ("sparse-returns-lists", ["C05", "C11"], TR, "    Gweights_indi = np.array(Gweights_indi)\n", "", "R-TRANSLPROG"),
    ("default-mode-primal", ["C01"], P, 'def solve(self, wrapper="cvxpy", return_primal_or_dual="dual"', 'def solve(self, wrapper="cvxpy", return_primal_or_dual="primal"', "R-RET"),
    ("dual-constant-presence-flipped", ["C01"], P, "        if 1 in dual_objective_expression_decomposition_dict.keys():", "        if 1 not in dual_objective_expression_decomposition_dict.keys():", "R-RET"),
    ("initial-condition-not-stored", ["C05"], P, "        # Call add_constraint method\n        self.add_constraint(constraint=condition)", "        # Call add_constraint method\n        pass", "R-DECLARE"),
    ("remainder-skips-gradient-only-terms", ["C07"], F, "list_of_functions_which_need_something = tuple_of_lists_of_functions[1] + tuple_of_lists_of_functions[2]",
     "list_of_functions_which_need_something = tuple_of_lists_of_functions[0] + tuple_of_lists_of_functions[2]", "R-WSUM"),
    ("remainder-counter-backwards", ["C07"], F, "                        number_of_currently_computed_gradients_and_values += 1", "                        number_of_currently_computed_gradients_and_values -= 1", "R-WSUM"),
    ("clip-when-nonnegative", ["C02"], P, "        if np.min(eig_val) < 0:", "        if not np.min(eig_val) < 0:", "R-LEAFREG"),
    ("reader-returns-nothing", ["C17"], F, "        return tables_of_duals", "        return None", "R-READER"),
    ("tables-never-stored", ["C17"], F, "        if table_of_constraints.shape != (0,):\n            df = pd.DataFrame(table_of_constraints, columns=point_names_2, index=point_names_1)",
     "        if False:\n            df = pd.DataFrame(table_of_constraints, columns=point_names_2, index=point_names_1)", "R-ALIGN"),
    ("block-table-diagonal-cell-dropped", ["C17"], "PEPit/functions/block_smooth_convex_function.py", "                        tables_of_constraints[k][i].append(0)", "                        pass", "R-ALIGN"),
    ("expression-add-accepts-anything", ["C06"], EX, "        elif isinstance(other, int) or isinstance(other, float):\n            merged_decomposition_dict = merge_dict(self.decomposition_dict, {1: other})\n        # Raise an Exception in any other scenario",
     "        elif True:\n            merged_decomposition_dict = merge_dict(self.decomposition_dict, {1: other})\n        # Raise an Exception in any other scenario", "R-OPSEM"),
    # ---- algebra (C06)
    ("merge-aliases-operand", ["C06"], DO, "merged_dict = dict1.copy()", "merged_dict = dict1", "R-"),
    ("prune-positive-only", ["C06"], DO, "if my_dict[key] != 0:", "if my_dict[key] > 0:", "R-DICTOPS"),
    ("rsub-sign", ["C06"], EX, "        return - self.__sub__(other=other)", "        return self.__sub__(other=other)", "R-OPSEM"),
    ("point-add-accepts-anything", ["C06"], PT, "        # Verify that other is a Point\n        assert isinstance(other, Point)\n", "", "R-OPSEM"),
    ("operator-creates-leaf", ["C06"], PT, "            return Point(is_leaf=False, decomposition_dict=new_decomposition_dict)", "            return Point(is_leaf=True, decomposition_dict=None)", "R-"),
    ("symmetrize-no-half", ["C06", "C01"], DO, "final_dict = {key: value/2 for key, value in symmetric_dict.items()}", "final_dict = {key: value for key, value in symmetric_dict.items()}", "R-DICTOPS"),
    # ---- oracle (C07)
    ("oracle-ignores-flag", ["C07"], F, "        if associated_grad_and_function_val and self.reuse_gradient:\n            return associated_grad_and_function_val", "        if associated_grad_and_function_val:\n            return associated_grad_and_function_val", "R-ONEVALUE"),
    ("sum-flag-or", ["C07"], F, "reuse_gradient=self.reuse_gradient and other.reuse_gradient)", "reuse_gradient=self.reuse_gradient or other.reuse_gradient)", "R-FLAG"),
    ("remainder-sign", ["C07"], F, "gradient_of_last_leaf_function = gradient_of_last_leaf_function - weight * grad", "gradient_of_last_leaf_function = gradient_of_last_leaf_function + weight * grad", "R-WSUM"),
    ("smooth-passes-user-flag", ["C07"], "PEPit/functions/smooth_function.py", "                         reuse_gradient=True,", "                         reuse_gradient=reuse_gradient,", "R-FLAG"),
    ("oracle-unpruned", ["C07"], F, "        self.decomposition_dict = prune_dict(self.decomposition_dict)\n\n        # If those values already exist, simply return them.", "        # If those values already exist, simply return them.", "R-PRUNED"),
    # ---- steps (C08)
    ("prox-sign", ["C08"], "PEPit/primitive_steps/proximal_step.py", "x = x0 - gamma * gx", "x = x0 + gamma * gx", "R-STEP"),
    ("linesearch-drop-orthogonality", ["C08"], "PEPit/primitive_steps/exact_linesearch_step.py", "    constraint = ((x - x0) * gx == 0)", "    constraint = ((x - x0) * gx <= 0)", "R-STEP"),
    ("bregman-wrong-function", ["C08"], "PEPit/primitive_steps/bregman_proximal_step.py", "    min_function.add_point((x, gx, fx))", "    mirror_map.add_point((x, gx, fx))", "R-STEP"),
    ("linear-opt-sign", ["C08"], "PEPit/primitive_steps/linear_optimization_step.py", "    gx = - dir", "    gx = dir", "R-STEP"),
    ("inexact-relative-eps", ["C08"], "PEPit/primitive_steps/inexact_gradient_step.py", "epsilon ** 2 * (gx0 ** 2) <= 0", "epsilon * (gx0 ** 2) <= 0", "R-STEP"),
    # ---- back-ends (C11)
    ("mosek-untracked-index", ["C11"], MK, "        if track:\n            self._constraint_index_in_mosek.append(nb_cons)", "        self._constraint_index_in_mosek.append(nb_cons)", "R-MOSEKPROG"),
    ("mosek-heuristic-sense", ["C11", "C14"], MK, "self.send_constraint_to_solver(self.objective >= wc_value - tol_dimension_reduction, track=False)", "self.send_constraint_to_solver(self.objective >= wc_value + tol_dimension_reduction, track=False)", "R-HEUR"),
    ("mosek-heuristic-tracked", ["C11", "C14"], MK, "self.send_constraint_to_solver(self.objective >= wc_value - tol_dimension_reduction, track=False)", "self.send_constraint_to_solver(self.objective >= wc_value - tol_dimension_reduction)", "R-HEUR"),
    # ---- history (C12)
    ("no-reset-functions", ["C12"], P, "        Function.list_of_functions = list()\n", "", "R-RESET"),
    ("no-reset-psd-counter", ["C12"], P, "        PSDMatrix.counter = 0\n", "", "R-RESET"),
    ("reset-late", ["C12"], P, "        self._reset_classes()\n\n        # Update the class counter\n        self.counter = PEP.counter\n        PEP.counter += 1\n",
     "        # Update the class counter\n        self.counter = PEP.counter\n        PEP.counter += 1\n        self._reset_classes()\n", "R-RESET"),
    ("fallback-under-verbose", ["C12"], P, "                      ' switching to cvxpy\\033[0m'.format(wrapper_name))\n            wrapper_name = \"cvxpy\"", "                      ' switching to cvxpy\\033[0m'.format(wrapper_name))\n                wrapper_name = \"cvxpy\"", "R-VERBOSE"),
    ("point-eval-lru-cache", ["C12"], PT, "    def eval(self):", "    from functools import lru_cache as _memoised\n\n    @_memoised(maxsize=None)\n    def eval(self):", "R-RESET"),
    ("point-eval-lru-cache-resolve", ["C13"], PT, "    def eval(self):", "    from functools import lru_cache as _memoised\n\n    @_memoised(maxsize=None)\n    def eval(self):", "R-MEMO"),
    ("translator-memo-reads-counter", ["C12"], TR, "def expression_to_matrices(expression):",
     "def _empty_gram():\n    return np.zeros((Point.counter, Point.counter))\n\n\n_cached_empty_gram = __import__('functools').lru_cache(maxsize=1)(_empty_gram)\n\n\ndef expression_to_matrices(expression):", "R-RESET"),
    ("default-list-written", ["C12"], P, "    def add_psd_matrix(self, matrix_of_expressions, name=None):", "    def add_psd_matrix(self, matrix_of_expressions, name=None, _log=[]):\n        _log.append(name)", "R-RESET"),
    # ---- re-solve (C13)
    ("expression-value-cached-property", ["C13"], EX, "    def eval(self):", "    @__import__('functools').cached_property\n    def value(self):\n        return self._value\n\n    def eval(self):", "R-MEMO"),
    ("class-psd-not-reset", ["C13", "C05"], F, "        self.list_of_class_psd = list()\n        self.add_class_constraints()", "        self.add_class_constraints()", "R-ACCUM"),
    ("tracking-list-not-reset", ["C13"], P, "        self._list_of_constraints_sent_to_wrapper = list()\n        self._list_of_psd_sent_to_wrapper = list()\n\n        # Defining performance metrics", "        self._list_of_psd_sent_to_wrapper = list()\n\n        # Defining performance metrics", "R-FRESH"),
    ("expression-memo", ["C13"], EX, "if self._value is None or not self._is_leaf:", "if self._value is None:", "R-MEMO"),
    ("constraint-memo", ["C13"], "PEPit/constraint.py", "        try:\n            self._value = self.expression.eval()\n        except ValueError:\n            raise ValueError(\"The PEP must be solved to evaluate Constraints!\")",
     "        if self._value is None:\n            try:\n                self._value = self.expression.eval()\n            except ValueError:\n                raise ValueError(\"The PEP must be solved to evaluate Constraints!\")", "R-MEMO"),
    ("wrapper-cached", ["C13"], P, "        wrapper = WRAPPERS[wrapper_name](verbose=verbose)\n\n        # Check that a valid license", "        wrapper = self.wrapper or WRAPPERS[wrapper_name](verbose=verbose)\n\n        # Check that a valid license", "R-FRESH"),
    # ---- dimension reduction (C14)
    ("duals-after-heuristic", ["C14"], P, "        self.residual = wrapper.assign_dual_values()\n        G_value, F_value = wrapper.get_primal_variables()\n", "        G_value, F_value = wrapper.get_primal_variables()\n", None),
    ("cvxpy-heuristic-orientation", ["C14", "C11"], CV, "self._list_of_solver_constraints.append(self.objective >= wc_value - tol_dimension_reduction)", "self._list_of_solver_constraints.append(self.objective <= wc_value + tol_dimension_reduction)", "R-HEUR"),
    ("heuristic-open-dispatch", ["C14", "C16"], P, "                raise ValueError(\"The argument \\'dimension_reduction_heuristic\\' must be \\'trace\\'\"", "                print(\"The argument \\'dimension_reduction_heuristic\\' must be \\'trace\\'\"", "R-OPTIONS"),
    # ---- partitions (C15)
    ("blocks-lose-remainder", ["C15"], BP, "point_partition.append(point - accumulation)", "point_partition.append(point)", "R-SUMBACK"),
    ("ortho-range", ["C15"], BP, "for l in range(k):", "for l in range(k - 1):", "R-ORTHO"),
    ("ortho-inequality", ["C15"], BP, "self.add_constraint(xi_decomposed[k] * xj_decomposed[l] == 0)", "self.add_constraint(xi_decomposed[k] * xj_decomposed[l] <= 0)", "R-ORTHO"),
    ("blocks-recreated", ["C15"], BP, "        if point not in self.blocks_dict.keys():\n", "        if True:\n", "R-SUMBACK"),
    ("block-smooth-full-gradient", ["C15", "C03"], "PEPit/functions/block_smooth_convex_function.py", "1 / (2 * self.L[k]) * (gik - gjk) ** 2", "1 / (2 * self.L[k]) * (gi - gj) ** 2", "R-FORMULA"),
    # ---- failures (C16)
    ("leaf-expression-returns-zero", ["C16"], EX, 'raise ValueError("The PEP must be solved to evaluate Expressions!")', "return 0.", "R-UNSOLVED"),
    ("except-instance", ["C16"], "PEPit/psd_matrix.py", "        except ValueError:", "        except ValueError(\"The PEP must be solved to evaluate Expressions!\"):", "R-EXCEPT"),
    ("none-check-removed", ["C16"], P, "            # Skip the following as no variable has a value\n            return wc_value\n", "            # Skip the following as no variable has a value\n            wc_value = 0.\n", "R-NONE"),
    ("step-open-dispatch", ["C16", "C08"], "PEPit/primitive_steps/inexact_gradient_step.py", "        raise ValueError(\"inexact_gradient_step supports only", "        print(\"inexact_gradient_step supports only", None),
    ("dual-accessor-returns-zero", ["C16"], "PEPit/psd_matrix.py", 'raise ValueError("The PEP must be solved to evaluate PSDMatrix dual variables!")', "return 0.", "R-UNSOLVED"),
    # ---- post-solve assignment and main variables as programs
    ("cholesky-untransposed-fast-path", ["C02"], P, "        points_values = np.linalg.qr((np.sqrt(eig_val) * eig_vec).T, mode='r')", "        if np.min(eig_val) > np.max(eig_val) / 1e3:\n            points_values = np.linalg.cholesky(G_value)\n        else:\n            points_values = np.linalg.qr((np.sqrt(eig_val) * eig_vec).T, mode='r')", "R-LEAFREG"),
    ("factor-not-transposed", ["C02"], P, "(np.sqrt(eig_val) * eig_vec).T, mode='r')", "(np.sqrt(eig_val) * eig_vec), mode='r')", "R-LEAFREG"),
    ("lmi-loop-leaf-test-negated", ["C02"], P, "                    if expression.get_is_leaf():\n                        expression._value = F_value[expression.counter]",
     "                    if not expression.get_is_leaf():\n                        expression._value = F_value[expression.counter]", "R-LEAFREG"),
    ("gram-constraint-shifted", ["C05", "C02"], CV, "self._list_of_solver_constraints.append(self.G >> 0)", "self._list_of_solver_constraints.append(self.G >> 1)", "R-MAINVARS"),
    ("mosek-assert-inverted", ["C11"], MK, "assert self.task.getmaxnumvar() == Expression.counter + 1", "assert self.task.getmaxnumvar() != Expression.counter + 1", "R-MOSEKROW"),
    ("mosek-first-value-not-free", ["C11"], MK, "        for i in range(Expression.counter):\n            self.task.putvarbound(i, mosek.boundkey.fr", "        for i in range(1, Expression.counter):\n            self.task.putvarbound(i, mosek.boundkey.fr", "R-MOSEKROW"),
    ("leaf-function-weight-zero", ["C07"], F, "            self.decomposition_dict = {self: 1}\n            self.counter = Function.counter", "            self.decomposition_dict = {self: 0}\n            self.counter = Function.counter", "R-LEAFREG"),
    ("logdet-prefix-length", ["C14"], P, "niter = int(dimension_reduction_heuristic[6:])", "niter = int(dimension_reduction_heuristic[7:])", "R-SOLVEPROG"),
    ("strict-comparison-reflected", ["C06"], EX, '        warnings.warn("Strict constraints will lead to the same solution as under soft constraints")\n        return self.__ge__(other=other)', "        return other.__lt__(self)", "R-OPSEM"),
    ("callback-as-lambda-wrong-gradient", ["C03", "C04"], "PEPit/functions/convex_function.py", "set_class_constraint_i_j=self.set_convexity_constraint_i_j,", "set_class_constraint_i_j=lambda xi, gi, fi, xj, gj, fj: fi - fj >= gi * (xi - xj),", "R-FORMULA"),
    # ---- tables (C17)
    ("table-columns-swapped", ["C17"], F, "df = pd.DataFrame(table_of_constraints, columns=point_names_2, index=point_names_1)", "df = pd.DataFrame(table_of_constraints, columns=point_names_1, index=point_names_2)", "R-ALIGN"),
    ("skip-cell-missing", ["C17"], F, "                    row_of_constraints.append(0)\n", "                    pass\n", "R-ALIGN"),
    ("name-order", ["C17"], F, '"IC_{}_{}({}, {})".format(function_id, constraint_name, xi_id, xj_id)', '"IC_{}_{}({}, {})".format(function_id, constraint_name, xj_id, xi_id)', "R-NAME"),
    ("reader-abs", ["C17"], F, "                        new_row.append(element.eval_dual())", "                        new_row.append(abs(element.eval_dual()))", "R-READER"),
]

# behaviour-preserving edits: (id, file, old, new) -- every check must stay silent
BENIGN = [
    # both are the value of the pair (gradient, value) the lookup returns
    ("value-index-one", F, "            # If the value already exist, simply return it\n            f = associated_grad_and_function_val[-1]",
     "            # If the value already exist, simply return it\n            f = associated_grad_and_function_val[1]"),
    ("entry-wrapper-factory", P, "        wrapper = WRAPPERS[wrapper_name](verbose=verbose)\n\n        # Check",
     "        make = lambda name: WRAPPERS[name](verbose=verbose)\n        wrapper = make(wrapper_name)\n\n        # Check"),
    # the 'must be solved' ValueError of the expression then reaches the caller unchanged: still the documented kind of error (C16 names the type)
    ("constraint-lets-the-expression-error-through", "PEPit/constraint.py", "        except ValueError:", "        except TypeError:"),
    ("callback-as-lambda", "PEPit/functions/convex_function.py", "set_class_constraint_i_j=self.set_convexity_constraint_i_j,", "set_class_constraint_i_j=lambda xi, gi, fi, xj, gj, fj: fi - fj >= gj * (xi - xj),"),
    ("second-list-is-a-copy", "PEPit/functions/convex_function.py", "                                                      list_of_points_2=self.list_of_points,", "                                                      list_of_points_2=list(self.list_of_points),"),
    ("cholesky-transposed-fast-path", P, "        points_values = np.linalg.qr((np.sqrt(eig_val) * eig_vec).T, mode='r')", "        if np.min(eig_val) > np.max(eig_val) / 1e3:\n            points_values = np.linalg.cholesky(G_value).T\n        else:\n            points_values = np.linalg.qr((np.sqrt(eig_val) * eig_vec).T, mode='r')"),
    ("factor-via-diag", P, "np.linalg.qr((np.sqrt(eig_val) * eig_vec).T, mode='r')", "np.linalg.qr(np.diag(np.sqrt(eig_val)) @ eig_vec.T, mode='r')"),
    ("clip-always", P, "        if np.min(eig_val) < 0:\n            if verbose:", "        if True:\n            if verbose and np.min(eig_val) < 0:"),
    ("dense-no-symmetrisation", TR, "    Gweights = (Gweights + Gweights.T) / 2\n", ""),
    ("sparse-mirror-absent-minus-zero", TR, "                    Gweights_val.append((weight + weight_sym) / 2)\n                    Gweights_indi.append(max(", "                    Gweights_val.append((weight - weight_sym) / 2)\n                    Gweights_indi.append(max("),
    ("mosek-row-index-minus-zeros", MK, "self.task.putaijlist(nb_cons + np.zeros(a_i.shape, dtype=np.int8), a_i, a_val)\n\n        if track:", "self.task.putaijlist(nb_cons - np.zeros(a_i.shape, dtype=np.int8), a_i, a_val)\n\n        if track:"),
    ("convex-expanded", "PEPit/functions/convex_function.py", "constraint = (fi - fj >= gj * (xi - xj))", "constraint = (fi >= fj + gj * xi - gj * xj)"),
    ("strongly-convex-rescaled", "PEPit/functions/strongly_convex_function.py", "self.mu / 2 * (xi - xj) ** 2", "(xi - xj) ** 2 * self.mu * 0.5"),
    ("monotone-times-two", "PEPit/operators/monotone.py", "constraint = ((gi - gj) * (xi - xj) >= 0)", "constraint = (2 * (gi - gj) * (xi - xj) >= 0)"),
    ("lipschitz-operands-swapped", "PEPit/operators/lipschitz.py", "(gi - gj) ** 2 - self.L ** 2 * (xi - xj) ** 2 <= 0", "(gj - gi) ** 2 - (self.L * (xj - xi)) * (self.L * (xj - xi)) <= 0"),
    ("generator-renamed-locals", F, "            xi, gi, fi = point_i\n            xi_id = xi.get_name()\n            if xi_id is None:\n                xi_id = \"Point_{}\".format(i)\n\n            # Initialize row of constraints",
     "            xi, gi, fi = point_i\n            xi_id = xi.get_name()\n            if xi_id is None:\n                xi_id = \"Point_{}\".format(i)\n\n            # Initialise the row"),
    ("reset-list-literal", P, "        Function.list_of_functions = list()", "        Function.list_of_functions = []"),
    ("tracking-list-literal", P, "        self._list_of_constraints_sent_to_wrapper = list()\n        self._list_of_psd_sent_to_wrapper = list()\n\n        # Defining performance metrics", "        self._list_of_constraints_sent_to_wrapper = []\n        self._list_of_psd_sent_to_wrapper = []\n\n        # Defining performance metrics"),
    ("metric-ge-form", P, "(self.objective <= performance_metric)", "(performance_metric >= self.objective)"),
    ("prox-reordered", "PEPit/primitive_steps/proximal_step.py", "    gx = Point()\n    fx = Expression()\n", "    fx = Expression()\n    gx = Point()\n"),
    ("prox-algebra", "PEPit/primitive_steps/proximal_step.py", "x = x0 - gamma * gx", "x = -gamma * gx + x0"),
    ("inexact-abs-rewritten", "PEPit/primitive_steps/inexact_gradient_step.py", "constraint = ((gx0 - dx0) ** 2 - epsilon ** 2 <= 0)", "constraint = ((dx0 - gx0) ** 2 <= epsilon * epsilon)"),
    ("ortho-other-triangle", BP, "                for k in range(self.d):\n                    for l in range(k):", "                for k in range(self.d):\n                    for l in range(k + 1, self.d):"),
    ("blocks-membership-form", BP, "if point not in self.blocks_dict.keys():", "if point not in self.blocks_dict:"),
    ("message-changed", PT, 'raise ValueError("The PEP must be solved to evaluate Points!")', 'raise ValueError("Solve the PEP before evaluating Points!")'),
    ("verbose-message", P, "print('(PEPit) Compiling SDP')", "print('(PEPit) Compiling the SDP')"),
    ("skip-halving-ge", F, "if point_i is point_j or (i > j and symmetry):", "if point_i is point_j or (i >= j and symmetry):"),
    ("cursor-renamed", CV, "                counter += size\n", "                counter = counter + size\n"),
    ("dual-mode-flipped-chain", P, '        if return_primal_or_dual == "dual":\n            return dual_objective\n        elif return_primal_or_dual == "primal":\n            return wc_value',
     '        if return_primal_or_dual == "primal":\n            return wc_value\n        elif return_primal_or_dual == "dual":\n            return dual_objective'),
    ("isinstance-tuple", EX, "        assert isinstance(other, int) or isinstance(other, float)", "        assert isinstance(other, (int, float))"),
    ("merge-copy-via-dict", DO, "merged_dict = dict1.copy()", "merged_dict = dict(dict1)"),
    ("sum-flag-reordered", F, "reuse_gradient=self.reuse_gradient and other.reuse_gradient)", "reuse_gradient=other.reuse_gradient and self.reuse_gradient)"),
]


def _seeded(prop):
    """Confirmed seeded changes that break `prop` (must fire) and the behaviour-preserving refactorings (must stay silent)."""
    import os, json
    here = os.path.join(os.path.dirname(os.path.dirname(os.path.abspath(__file__))), "seeded")
    out = []
    if not os.path.isdir(here):
        return out
    for d in sorted(os.listdir(here)):
        pth = os.path.join(here, d, "patch.diff")
        meta = os.path.join(here, d, "meta.json")
        if os.path.isfile(pth) and os.path.isfile(meta):
            try:
                target = json.load(open(meta)).get("property")
            except Exception:
                continue
            if target == prop:
                out.append({"id": "seed:" + d, "edits": [("@patch", pth)], "expect": "fire", "rule": None})
    ben = os.path.join(here, "benign")
    if os.path.isdir(ben):
        for d in sorted(os.listdir(ben)):
            pth = os.path.join(ben, d, "patch.diff")
            if os.path.isfile(pth):
                out.append({"id": "refactoring:" + d, "edits": [("@patch", pth)], "expect": "silent"})
    return out


def variants_for(prop):
    out = _seeded(prop)
    for (vid, props, rel, old, new, rule) in BREAK:
        if prop in props:
            out.append({"id": vid, "edits": [(rel, old, new)], "expect": "fire", "rule": rule if rule and rule != "R-" else None})
    for (vid, rel, old, new) in BENIGN:
        out.append({"id": "benign:" + vid, "edits": [(rel, old, new)], "expect": "silent"})
    return out
