"""E4 -- algebraic normal forms of DSL expression syntax trees.

A term rewriter over the expression sub-language of PEPit's DSL.  No PEPit code runs: atoms have no values,
parameters are symbols, and an expression tree is rewritten to a canonical polynomial form

    scalar      rational function of parameter symbols                     (class Rat)
    point       finite map  atom -> scalar                                  (class PointV)
    expression  finite map  monomial -> scalar, monomial = f-atom | unordered pair of point atoms | 1
                                                                            (class ExprV)
    constraint  (expression, '<=' | '==')  meaning  expression <= 0 / == 0  (class ConsV)

Two trees denote the same object under every assignment of vectors / numbers to the atoms iff their normal
forms are equal (coefficients compared as rational functions by cross-multiplication; exact arithmetic on
fractions).  This is value numbering + polynomial canonicalisation of syntax trees.
"""
import ast
from fractions import Fraction
from .model import AnalysisError, src


# ---------------------------------------------------------------------------------------------------
# rational functions of parameter symbols
# ---------------------------------------------------------------------------------------------------
class Poly:
    __slots__ = ("t",)

    def __init__(self, terms=None):
        self.t = {k: v for k, v in (terms or {}).items() if v != 0}

    @staticmethod
    def const(c):
        return Poly({(): Fraction(c)})

    @staticmethod
    def sym(name):
        return Poly({((name, 1),): Fraction(1)})

    def __add__(self, o):
        t = dict(self.t)
        for k, v in o.t.items():
            t[k] = t.get(k, 0) + v
        return Poly(t)

    def __neg__(self):
        return Poly({k: -v for k, v in self.t.items()})

    def __sub__(self, o):
        return self + (-o)

    def __mul__(self, o):
        t = {}
        for k1, v1 in self.t.items():
            for k2, v2 in o.t.items():
                d = dict(k1)
                for s, e in k2:
                    d[s] = d.get(s, 0) + e
                k = tuple(sorted((s, e) for s, e in d.items() if e))
                t[k] = t.get(k, 0) + v1 * v2
        return Poly(t)

    def is_zero(self):
        return not self.t

    def is_const(self):
        return all(k == () for k in self.t)

    def const_value(self):
        return self.t.get((), Fraction(0))

    def symbols(self):
        return {s for k in self.t for s, _ in k}

    def subs(self, mapping):
        """Substitute symbols by Fractions (all symbols must be mapped)."""
        tot = Fraction(0)
        for k, v in self.t.items():
            term = v
            for s, e in k:
                term *= Fraction(mapping[s]) ** e
            tot += term
        return tot

    def __eq__(self, o):
        return self.t == o.t

    def __hash__(self):
        return hash(tuple(sorted(self.t.items())))

    def __str__(self):
        if not self.t:
            return "0"
        parts = []
        for k, v in sorted(self.t.items()):
            mono = "*".join(s if e == 1 else "%s**%d" % (s, e) for s, e in k)
            if not mono:
                parts.append(str(v))
            elif v == 1:
                parts.append(mono)
            elif v == -1:
                parts.append("-" + mono)
            else:
                parts.append("%s*%s" % (v, mono))
        return " + ".join(parts).replace("+ -", "- ")


class Rat:
    __slots__ = ("n", "d")

    def __init__(self, n, d=None):
        if not isinstance(n, Poly):
            n = Poly.const(n)
        if d is None:
            d = Poly.const(1)
        elif not isinstance(d, Poly):
            d = Poly.const(d)
        if d.is_zero():
            raise AnalysisError("division by a zero scalar in a normal form")
        if d.is_const():
            c = d.const_value()
            n = Poly({k: v / c for k, v in n.t.items()})
            d = Poly.const(1)
        self.n, self.d = n, d

    @staticmethod
    def sym(name):
        return Rat(Poly.sym(name))

    def __add__(self, o):
        o = to_rat(o)
        if self.d == o.d:
            return Rat(self.n + o.n, self.d)
        return Rat(self.n * o.d + o.n * self.d, self.d * o.d)

    __radd__ = __add__

    def __neg__(self):
        return Rat(-self.n, self.d)

    def __sub__(self, o):
        return self + (-to_rat(o))

    def __rsub__(self, o):
        return to_rat(o) - self

    def __mul__(self, o):
        o = to_rat(o)
        return Rat(self.n * o.n, self.d * o.d)

    __rmul__ = __mul__

    def __truediv__(self, o):
        o = to_rat(o)
        if o.n.is_zero():
            raise AnalysisError("division by zero in a normal form")
        return Rat(self.n * o.d, self.d * o.n)

    def __rtruediv__(self, o):
        return to_rat(o) / self

    def __pow__(self, k):
        if not isinstance(k, int):
            raise AnalysisError("non-integer power of a scalar")
        if k < 0:
            return Rat(1) / (self ** (-k))
        r = Rat(1)
        for _ in range(k):
            r = r * self
        return r

    def is_zero(self):
        return self.n.is_zero()

    def equals(self, o):
        o = to_rat(o)
        return (self.n * o.d - o.n * self.d).is_zero()

    def _ratio(self):
        """Fraction q with n == q * d, or None."""
        if self.n.is_zero():
            return Fraction(0)
        if self.n.is_const() and self.d.is_const():
            return self.n.const_value() / self.d.const_value()
        k = sorted(self.d.t)[0]
        if k not in self.n.t:
            return None
        q = self.n.t[k] / self.d.t[k]
        if (self.n - self.d * Poly.const(q)).is_zero():
            return q
        return None

    def is_number(self):
        return self._ratio() is not None

    def number(self):
        return self._ratio()

    def symbols(self):
        return self.n.symbols() | self.d.symbols()

    def subs(self, mapping):
        den = self.d.subs(mapping)
        if den == 0:
            raise ZeroDivisionError
        return self.n.subs(mapping) / den

    def __str__(self):
        if self.d.is_const() and self.d.const_value() == 1:
            return str(self.n)
        return "(%s)/(%s)" % (self.n, self.d)

    __repr__ = __str__


def to_rat(x):
    if isinstance(x, Rat):
        return x
    if isinstance(x, bool):
        raise AnalysisError("boolean used as a scalar")
    if isinstance(x, int):
        return Rat(Fraction(x))
    if isinstance(x, Fraction):
        return Rat(x)
    if isinstance(x, float):
        if x != x or x in (float("inf"), float("-inf")):
            raise AnalysisError("non-finite float in a normal form")
        return Rat(Fraction(repr(x)))
    raise AnalysisError("cannot convert %r to a scalar" % (x,))


# ---------------------------------------------------------------------------------------------------
# DSL sorts
# ---------------------------------------------------------------------------------------------------
class SortError(AnalysisError):
    """An operator applied to operand sorts the DSL does not accept."""


def _clean(d):
    return {k: v for k, v in d.items() if not v.is_zero()}


class PointV:
    def __init__(self, d=None):
        self.d = _clean(d or {})

    @staticmethod
    def atom(name):
        return PointV({name: Rat(1)})

    def __add__(self, o):
        if not isinstance(o, PointV):
            raise SortError("point + %s" % type(o).__name__)
        d = dict(self.d)
        for k, v in o.d.items():
            d[k] = d[k] + v if k in d else v
        return PointV(d)

    def __neg__(self):
        return PointV({k: -v for k, v in self.d.items()})

    def __sub__(self, o):
        if not isinstance(o, PointV):
            raise SortError("point - %s" % type(o).__name__)
        return self + (-o)

    def scale(self, c):
        c = to_rat(c)
        return PointV({k: v * c for k, v in self.d.items()})

    def dot(self, o):
        d = {}
        for a, va in self.d.items():
            for b, vb in o.d.items():
                k = ("g",) + tuple(sorted((a, b), key=str))
                d[k] = d[k] + va * vb if k in d else va * vb
        return ExprV(d)

    def equals(self, o):
        return isinstance(o, PointV) and _maps_equal(self.d, o.d)

    def atoms(self):
        return set(self.d)

    def rename(self, m):
        d = {}
        for k, v in self.d.items():
            k2 = m.get(k, k)
            d[k2] = d[k2] + v if k2 in d else v
        return PointV(d)

    def __str__(self):
        return _fmt_map(self.d, lambda k: str(k))

    __repr__ = __str__


class ExprV:
    def __init__(self, d=None):
        self.d = _clean(d or {})

    @staticmethod
    def atom(name):
        return ExprV({("f", name): Rat(1)})

    @staticmethod
    def const(c):
        return ExprV({("1",): to_rat(c)})

    def __add__(self, o):
        if isinstance(o, Rat):
            o = ExprV.const(o)
        if not isinstance(o, ExprV):
            raise SortError("expression + %s" % type(o).__name__)
        d = dict(self.d)
        for k, v in o.d.items():
            d[k] = d[k] + v if k in d else v
        return ExprV(d)

    def __neg__(self):
        return ExprV({k: -v for k, v in self.d.items()})

    def __sub__(self, o):
        if isinstance(o, Rat):
            o = ExprV.const(o)
        if not isinstance(o, ExprV):
            raise SortError("expression - %s" % type(o).__name__)
        return self + (-o)

    def scale(self, c):
        c = to_rat(c)
        return ExprV({k: v * c for k, v in self.d.items()})

    def equals(self, o):
        return isinstance(o, ExprV) and _maps_equal(self.d, o.d)

    def is_zero(self):
        return not self.d

    def atoms(self):
        s = set()
        for k in self.d:
            s.update(k[1:])
        return s

    def rename(self, m):
        d = {}
        for k, v in self.d.items():
            if k[0] == "f":
                k2 = ("f", m.get(k[1], k[1]))
            elif k[0] == "g":
                k2 = ("g",) + tuple(sorted((m.get(k[1], k[1]), m.get(k[2], k[2])), key=str))
            else:
                k2 = k
            d[k2] = d[k2] + v if k2 in d else v
        return ExprV(d)

    def proportional(self, o):
        """Return the Rat c with self == c * o (None when not proportional; c is never zero)."""
        if set(self.d) != set(o.d):
            return None
        if not self.d:
            return Rat(1)
        k0 = sorted(self.d, key=str)[0]
        c = self.d[k0] / o.d[k0]
        for k in self.d:
            if not self.d[k].equals(o.d[k] * c):
                return None
        return c

    def __str__(self):
        return _fmt_map(self.d, _fmt_mono)

    __repr__ = __str__


class ConsV:
    """expr <= 0  or  expr == 0"""

    def __init__(self, expr, sense):
        assert sense in ("<=", "==")
        self.e, self.sense = expr, sense

    def equivalent(self, o):
        """Same feasible set by a positive numeric (or, for equalities, non-zero numeric) rescaling."""
        if not isinstance(o, ConsV) or self.sense != o.sense:
            return False
        c = self.e.proportional(o.e)
        if c is None or not c.is_number():
            return False
        return c.number() != 0 if self.sense == "==" else c.number() > 0

    def rename(self, m):
        return ConsV(self.e.rename(m), self.sense)

    def atoms(self):
        return self.e.atoms()

    def __str__(self):
        return "%s %s 0" % (self.e, self.sense)

    __repr__ = __str__


class TupleV:
    def __init__(self, items):
        self.items = list(items)

    def __str__(self):
        return "(" + ", ".join(str(i) for i in self.items) + ")"

    __repr__ = __str__


class Opaque:
    """A value the normaliser does not interpret (strings, None, objects)."""

    def __init__(self, tag, payload=None):
        self.tag, self.payload = tag, payload

    def __str__(self):
        return "<%s%s>" % (self.tag, "" if self.payload is None else ":" + str(self.payload))

    __repr__ = __str__


def _maps_equal(a, b):
    if set(a) != set(b):
        return False
    return all(a[k].equals(b[k]) for k in a)


def _fmt_mono(k):
    if k[0] == "f":
        return str(k[1])
    if k[0] == "g":
        return "<%s,%s>" % (k[1], k[2])
    return "1"


def _fmt_map(d, fk):
    if not d:
        return "0"
    return " + ".join("(%s)*%s" % (v, fk(k)) for k, v in sorted(d.items(), key=lambda kv: str(kv[0])))


def values_equal(a, b):
    if isinstance(a, Rat) and isinstance(b, Rat):
        return a.equals(b)
    if isinstance(a, (PointV, ExprV)):
        return a.equals(b)
    if isinstance(a, ConsV):
        return a.equivalent(b)
    if isinstance(a, TupleV) and isinstance(b, TupleV):
        return len(a.items) == len(b.items) and all(values_equal(x, y) for x, y in zip(a.items, b.items))
    if isinstance(a, Opaque) and isinstance(b, Opaque):
        return a.tag == b.tag and a.payload == b.payload
    return False


# ---------------------------------------------------------------------------------------------------
# operators of the DSL on normal forms (the *intended* calculus; C06 checks the overloads deliver it)
# ---------------------------------------------------------------------------------------------------
def v_add(a, b):
    if isinstance(a, Rat) and isinstance(b, Rat):
        return a + b
    if isinstance(a, PointV):
        return a + b
    if isinstance(a, ExprV):
        return a + b
    if isinstance(a, Rat) and isinstance(b, ExprV):
        return b + a
    raise SortError("+ on %s and %s" % (type(a).__name__, type(b).__name__))


def v_neg(a):
    if isinstance(a, (Rat, PointV, ExprV)):
        return -a
    raise SortError("unary - on %s" % type(a).__name__)


def v_sub(a, b):
    return v_add(a, v_neg(b))


def v_mul(a, b):
    if isinstance(a, Rat) and isinstance(b, Rat):
        return a * b
    if isinstance(a, Rat) and isinstance(b, (PointV, ExprV)):
        return b.scale(a)
    if isinstance(b, Rat) and isinstance(a, (PointV, ExprV)):
        return a.scale(b)
    if isinstance(a, PointV) and isinstance(b, PointV):
        return a.dot(b)
    raise SortError("* on %s and %s" % (type(a).__name__, type(b).__name__))


def v_div(a, b):
    if not isinstance(b, Rat):
        raise SortError("/ by %s" % type(b).__name__)
    if isinstance(a, Rat):
        return a / b
    if isinstance(a, (PointV, ExprV)):
        return a.scale(Rat(1) / b)
    raise SortError("/ on %s" % type(a).__name__)


def v_pow(a, b):
    if not (isinstance(b, Rat) and b.is_number() and b.number().denominator == 1):
        raise SortError("power with a non-integer exponent")
    k = int(b.number())
    if isinstance(a, Rat):
        return a ** k
    if isinstance(a, PointV):
        if k != 2:
            raise SortError("point ** %d" % k)
        return a.dot(a)
    raise SortError("** on %s" % type(a).__name__)


def v_cmp(op, a, b):
    """a op b -> ConsV (left-minus-right convention of the DSL)."""
    if isinstance(a, Rat) and isinstance(b, ExprV):
        a = ExprV.const(a)
    if isinstance(b, Rat) and isinstance(a, ExprV):
        b = ExprV.const(b)
    if not (isinstance(a, ExprV) and isinstance(b, ExprV)):
        raise SortError("comparison of %s and %s" % (type(a).__name__, type(b).__name__))
    if isinstance(op, (ast.LtE, ast.Lt)):
        return ConsV(a - b, "<=")
    if isinstance(op, (ast.GtE, ast.Gt)):
        return ConsV(b - a, "<=")
    if isinstance(op, ast.Eq):
        return ConsV(a - b, "==")
    raise SortError("comparison operator %s" % type(op).__name__)


# ---------------------------------------------------------------------------------------------------
# expression evaluator over syntax trees
# ---------------------------------------------------------------------------------------------------
class Evaluator:
    """Rewrites an expression syntax tree to a normal form under an environment.

    Subclasses provide the meaning of names, attributes, subscripts and calls of their fragment."""

    def __init__(self, env=None):
        self.env = dict(env or {})
        self._fresh = 0

    def fresh(self, prefix):
        self._fresh += 1
        return "%s#%d" % (prefix, self._fresh)

    def ev(self, node):
        m = getattr(self, "ev_" + type(node).__name__, None)
        if m is None:
            raise AnalysisError("expression kind %s outside the analysed fragment: %s" % (type(node).__name__, src(node)))
        return m(node)

    def ev_Constant(self, node):
        v = node.value
        if isinstance(v, bool) or v is None or isinstance(v, str):
            return Opaque("const", v)
        return to_rat(v)

    def ev_Name(self, node):
        if node.id in self.env:
            return self.env[node.id]
        return self.name(node)

    def name(self, node):
        raise AnalysisError("unbound name %s" % node.id)

    def ev_Attribute(self, node):
        return self.attribute(node)

    def attribute(self, node):
        raise AnalysisError("attribute %s outside the analysed fragment" % src(node))

    def ev_Subscript(self, node):
        return self.subscript(node)

    def subscript(self, node):
        base = self.ev(node.value)
        if isinstance(base, TupleV) and isinstance(node.slice, ast.Constant) and isinstance(node.slice.value, int):
            return base.items[node.slice.value]
        raise AnalysisError("subscript %s outside the analysed fragment" % src(node))

    def ev_Call(self, node):
        return self.call(node)

    def call(self, node):
        raise AnalysisError("call %s outside the analysed fragment" % src(node))

    def ev_Tuple(self, node):
        return TupleV([self.ev(e) for e in node.elts])

    def ev_List(self, node):
        return TupleV([self.ev(e) for e in node.elts])

    def ev_UnaryOp(self, node):
        v = self.ev(node.operand)
        if isinstance(node.op, ast.USub):
            return v_neg(v)
        if isinstance(node.op, ast.UAdd):
            return v
        raise AnalysisError("unary operator in %s" % src(node))

    def ev_BinOp(self, node):
        a, b = self.ev(node.left), self.ev(node.right)
        op = node.op
        if isinstance(op, ast.Add):
            return v_add(a, b)
        if isinstance(op, ast.Sub):
            return v_sub(a, b)
        if isinstance(op, ast.Mult):
            return v_mul(a, b)
        if isinstance(op, ast.Div):
            return v_div(a, b)
        if isinstance(op, ast.Pow):
            return v_pow(a, b)
        raise AnalysisError("binary operator in %s" % src(node))

    def ev_Compare(self, node):
        if len(node.ops) != 1:
            raise AnalysisError("chained comparison %s" % src(node))
        a, b = self.ev(node.left), self.ev(node.comparators[0])
        return v_cmp(node.ops[0], a, b)


def parse_expr(text):
    return ast.parse(text.strip(), mode="eval").body


# ---------------------------------------------------------------------------------------------------
# exact tests on quadratic forms with rational entries (used to classify a difference as a relaxation)
# ---------------------------------------------------------------------------------------------------
def is_nsd(matrix):
    """Exact negative-semidefiniteness test of a symmetric matrix of Fractions (LDL^T with pivoting on the diagonal)."""
    n = len(matrix)
    a = [[-Fraction(x) for x in row] for row in matrix]   # test PSD of -M
    for k in range(n):
        # pick a non-zero diagonal pivot among the remaining ones
        piv = None
        for p in range(k, n):
            if a[p][p] != 0:
                piv = p
                break
        if piv is None:
            # all remaining diagonal entries are zero: the remaining block must be zero
            for i in range(k, n):
                for j in range(k, n):
                    if a[i][j] != 0:
                        return False
            return True
        if piv != k:
            a[k], a[piv] = a[piv], a[k]
            for row in a:
                row[k], row[piv] = row[piv], row[k]
        if a[k][k] < 0:
            return False
        for i in range(k + 1, n):
            f = a[i][k] / a[k][k]
            for j in range(k, n):
                a[i][j] -= f * a[k][j]
        for i in range(k + 1, n):
            a[i][k] = Fraction(0)
        # zero diagonal with non-zero row => indefinite
    return True
