"""E1 call resolution and E2 effect summaries.

resolve_call   callee(s) of a call site: self.m through the class hierarchy (definition + overriding subclasses),
               Cls.m, module functions and constructors through import aliases, super().m, and -- for a receiver of
               unknown class -- every method of that name defined in the package (class-hierarchy over-approximation).
writes_of      every write a function performs, classified by the *root* of the written object:
               self / param:<p> / class:<C> / fresh (a local bound only to new objects) / alias:<root> / global / unknown
"""
import ast
from .model import ClassInfo, dotted, call_name, params_of, src, qualname

CONTAINER_MUTATORS = {"append", "extend", "insert", "pop", "remove", "clear", "update", "setdefault", "add", "discard",
                      "sort", "reverse", "popitem", "__setitem__", "__delitem__"}
FRESH_CALLS = {"dict", "list", "set", "tuple", "copy", "deepcopy", "zeros", "empty", "array", "identity", "eye", "ones",
               "sorted", "range", "enumerate", "zip", "len", "str", "int", "float", "format", "DataFrame"}


ALIASING_CALLS = {"asarray", "asanyarray", "ascontiguousarray", "atleast_1d", "atleast_2d", "ravel", "reshape", "view", "squeeze", "transpose"}


def owner_class(fn):
    return getattr(fn, "_cls", None)


def resolve_call(repo, fn, call):
    """-> (list of FunctionDef, note) ; note in {'resolved', 'cha', 'external'}"""
    f = call.func
    mod = fn._module
    cls = owner_class(fn)
    if isinstance(f, ast.Name):
        r = repo.resolve_name(mod, f.id)
        if isinstance(r, ClassInfo):
            init = r.find_method("__init__")
            return ([init] if init is not None else []), "resolved"
        if isinstance(r, ast.FunctionDef):
            return [r], "resolved"
        # nested function definitions
        for n in ast.walk(fn):
            if isinstance(n, ast.FunctionDef) and n.name == f.id and n is not fn:
                return [n], "resolved"
        return [], "external"
    if isinstance(f, ast.Attribute):
        m = f.attr
        recv = f.value
        if isinstance(recv, ast.Name) and recv.id == "self" and cls is not None:
            out = []
            d = cls.find_method(m)
            if d is not None:
                out.append(d)
            for sub in repo.subclasses(cls):
                if m in sub.methods and sub.methods[m] not in out:
                    out.append(sub.methods[m])
            if out:
                return out, "resolved"
        if isinstance(recv, ast.Call) and isinstance(recv.func, ast.Name) and recv.func.id == "super" and cls is not None:
            for b in cls.mro()[1:]:
                if m in b.methods:
                    return [b.methods[m]], "resolved"
            return [], "external"
        if isinstance(recv, ast.Name):
            r = repo.resolve_name(mod, recv.id)
            if isinstance(r, ClassInfo):
                d = r.find_method(m)
                if d is not None:
                    return [d], "resolved"
            if isinstance(r, tuple) and r[0] in ("module", "external"):
                # np.zeros, importlib.util.find_spec, pd.DataFrame ...
                if r[0] == "module" and r[1] in repo.by_modname:
                    t = repo.by_modname[r[1]]
                    if m in t.functions:
                        return [t.functions[m]], "resolved"
                return [], "external"
        # unknown receiver: class-hierarchy approximation by method name
        cands = []
        for c in repo.all_classes():
            if m in c.methods:
                cands.append(c.methods[m])
        if cands:
            return cands, "cha"
        return [], "external"
    return [], "external"


def closure(repo, roots, follow_cha=True, prune=None):
    """Functions reachable from roots through resolved calls.  prune(fn, call) -> True to skip a call edge."""
    seen, order = set(), []
    todo = list(roots)
    edges = []
    unresolved = []
    while todo:
        fn = todo.pop()
        if id(fn) in seen:
            continue
        seen.add(id(fn))
        order.append(fn)
        for call in [n for n in ast.walk(fn) if isinstance(n, ast.Call)]:
            if prune and prune(fn, call):
                continue
            targets, note = resolve_call(repo, fn, call)
            if note == "cha" and not follow_cha:
                unresolved.append((fn, call))
                continue
            if note == "external":
                continue
            for t in targets:
                edges.append((fn, call, t))
                if id(t) not in seen:
                    todo.append(t)
    return order, edges, unresolved


class Write:
    __slots__ = ("kind", "root", "path", "node", "fn", "guards")

    def __init__(self, kind, root, path, node, fn):
        self.kind, self.root, self.path, self.node, self.fn = kind, root, path, node, fn

    def __repr__(self):
        return "<%s %s %s in %s:%d>" % (self.kind, self.root, self.path, qualname(self.fn), getattr(self.node, "lineno", 0))


def _root_of(expr):
    """Name at the bottom of an attribute / subscript / call-of-method chain."""
    n = expr
    while True:
        if isinstance(n, ast.Attribute):
            n = n.value
        elif isinstance(n, ast.Subscript):
            n = n.value
        else:
            break
    return n


def local_kinds(repo, fn):
    """name -> 'fresh' | ('alias', root description) for the local names of fn."""
    params = params_of(fn)
    assigns = {}

    def add(name, rhs, how="assign"):
        assigns.setdefault(name, []).append((rhs, how))

    for n in ast.walk(fn):
        if isinstance(n, ast.Assign):
            for t in n.targets:
                _collect_targets(t, n.value, add)
        elif isinstance(n, ast.AugAssign) and isinstance(n.target, ast.Name):
            add(n.target.id, n.value, "aug")
        elif isinstance(n, ast.For):
            _collect_targets(n.target, n.iter, lambda nm, rhs, how="iter": add(nm, rhs, "iter"))
        elif isinstance(n, ast.comprehension):
            _collect_targets(n.target, n.iter, lambda nm, rhs, how="iter": add(nm, rhs, "iter"))
        elif isinstance(n, ast.With):
            for it in n.items:
                if it.optional_vars is not None:
                    _collect_targets(it.optional_vars, it.context_expr, add)
    kinds = {}

    def classify(name, depth=0):
        if name in kinds:
            return kinds[name]
        if name in params:
            kinds[name] = ("alias", "self" if name == "self" else "param:" + name)
            return kinds[name]
        if name not in assigns or depth > 8:
            return None
        kinds[name] = "fresh"      # provisional (cycles)
        res = "fresh"
        for rhs, how in assigns[name]:
            k = _expr_kind(rhs, how, classify, depth)
            if k != "fresh":
                res = k
                break
        kinds[name] = res
        return res

    def _expr_kind(rhs, how, classify, depth):
        if how == "aug":
            return "fresh"     # x += e rebinds for immutables; for lists of locals handled via the first binding
        if isinstance(rhs, (ast.Constant, ast.Dict, ast.List, ast.Set, ast.Tuple, ast.ListComp, ast.DictComp, ast.SetComp,
                            ast.GeneratorExp, ast.BinOp, ast.UnaryOp, ast.Compare, ast.BoolOp, ast.JoinedStr, ast.Lambda)) and how != "iter":
            if isinstance(rhs, ast.Tuple):
                for e in rhs.elts:
                    k = _expr_kind(e, how, classify, depth)
                    if k != "fresh":
                        return k
            return "fresh"
        if isinstance(rhs, ast.Call) and how != "iter":
            nm = call_name(rhs)
            if nm == "copy" and isinstance(rhs.func, ast.Attribute):
                return "fresh"
            if isinstance(rhs.func, ast.Name):
                return "fresh"          # constructors and module functions return new objects here
            if nm in FRESH_CALLS:
                return "fresh"
            # a library call that is not known to build a new object may hand back (a view of) one of its arguments: np.asarray(x), x.view(), ...
            if nm in ALIASING_CALLS:
                for a in rhs.args:
                    k = _expr_kind(a, "assign", classify, depth)
                    if k != "fresh":
                        return k
            # method call on something: result may alias the receiver's content (e.g. dict.get, oracle) -> alias of receiver root
            root = _root_of(rhs.func)
            if isinstance(root, ast.Name):
                k = classify(root.id, depth + 1)
                if isinstance(k, tuple):
                    return ("alias", k[1] + ".<call>")
                if k == "fresh":
                    return "fresh"
            return "fresh"
        # names, attributes, subscripts, iteration: alias of the root
        it = rhs
        if how == "iter" and isinstance(rhs, ast.Call):
            # enumerate(X), zip(X, Y), X.items(), range(...)
            nm = call_name(rhs)
            if nm in ("range",):
                return "fresh"
            if nm in ("enumerate", "zip", "reversed", "sorted", "list") and rhs.args:
                for a in rhs.args:
                    k = _expr_kind(a, "iter", classify, depth)
                    if k != "fresh":
                        return k
                return "fresh"
            if isinstance(rhs.func, ast.Attribute):
                it = rhs.func.value
        root = _root_of(it)
        if isinstance(root, ast.Name):
            if root.id == "self" or root.id in params:
                return ("alias", ("self" if root.id == "self" else "param:" + root.id))
            k = classify(root.id, depth + 1)
            if k is None:
                r = repo.resolve_name(fn._module, root.id)
                if isinstance(r, ClassInfo):
                    return ("alias", "class:" + r.name)
                if r is not None:
                    return ("alias", "global:" + root.id)
                return "fresh"
            return k
        return "fresh"

    for name in list(assigns):
        classify(name)
    return kinds


def _collect_targets(target, value, add):
    if isinstance(target, ast.Name):
        add(target.id, value)
    elif isinstance(target, (ast.Tuple, ast.List)):
        if isinstance(value, (ast.Tuple, ast.List)) and len(value.elts) == len(target.elts):
            for t, v in zip(target.elts, value.elts):
                _collect_targets(t, v, add)
        else:
            for t in target.elts:
                _collect_targets(t, value, add)
    elif isinstance(target, ast.Starred):
        _collect_targets(target.value, value, add)


def writes_of(repo, fn):
    """All writes performed directly by fn (not by its callees)."""
    kinds = local_kinds(repo, fn)
    params = params_of(fn)
    out = []

    def root_desc(expr):
        root = _root_of(expr)
        if isinstance(root, ast.Name):
            if root.id == "self" and "self" in params:
                return "self"
            if root.id in params:
                return "param:" + root.id
            k = kinds.get(root.id)
            if k == "fresh":
                return "fresh"
            if isinstance(k, tuple):
                return "alias:" + k[1]
            r = repo.resolve_name(fn._module, root.id)
            if isinstance(r, ClassInfo):
                return "class:" + r.name
            if r is not None:
                return "global:" + root.id
            return "unknown:" + root.id
        if isinstance(root, ast.Call):
            return "fresh"
        return "unknown"

    def path_of(expr):
        d = dotted(expr) if not isinstance(expr, ast.Subscript) else None
        return d or src(expr)

    for n in ast.walk(fn):
        if isinstance(n, (ast.FunctionDef, ast.Lambda)) and n is not fn:
            continue
        if isinstance(n, ast.Assign):
            for t in n.targets:
                for tt in (t.elts if isinstance(t, (ast.Tuple, ast.List)) else [t]):
                    if isinstance(tt, ast.Attribute):
                        out.append(Write("rebind", root_desc(tt.value), path_of(tt), n, fn))
                    elif isinstance(tt, ast.Subscript):
                        out.append(Write("keyed", root_desc(tt.value), path_of(tt.value), n, fn))
        elif isinstance(n, ast.AugAssign):
            t = n.target
            if isinstance(t, ast.Attribute):
                out.append(Write("accumulate", root_desc(t.value), path_of(t), n, fn))
            elif isinstance(t, ast.Subscript):
                out.append(Write("keyed", root_desc(t.value), path_of(t.value), n, fn))
            elif isinstance(t, ast.Name):
                k = kinds.get(t.id)
                if isinstance(k, tuple):
                    out.append(Write("accumulate", "alias:" + k[1], t.id, n, fn))
        elif isinstance(n, ast.Delete):
            for t in n.targets:
                if isinstance(t, (ast.Attribute, ast.Subscript)):
                    out.append(Write("delete", root_desc(t.value), path_of(t.value), n, fn))
        elif isinstance(n, ast.Call) and isinstance(n.func, ast.Attribute) and n.func.attr in CONTAINER_MUTATORS:
            recv = n.func.value
            out.append(Write("accumulate", root_desc(recv), path_of(recv), n, fn))
    return out
