"""E5 -- the checker tested both ways (thorough tier).

For every rule instance confirmed on the reference tree a single-site edit of a scratch copy of PEPit/ must make the
check of the property fire *and name the expected rule*; behaviour-preserving edits must leave it silent.
Scratch copies live under a mkdtemp directory outside /repo and /verif and are removed immediately.
This tests the checker; it is not what decides the property.
"""
import os
import shutil
import subprocess
import sys
import tempfile
from concurrent.futures import ThreadPoolExecutor

from .core import VERIF
from .model import REPO, AnalysisError


def _copy_pkg(dst):
    src = os.path.join(REPO, "PEPit")
    def ignore(d, names):
        out = [n for n in names if n == "__pycache__"]
        if os.path.abspath(d) == os.path.abspath(src):
            out.append("examples")
        return out
    shutil.copytree(src, os.path.join(dst, "PEPit"), ignore=ignore)


def run_variant(prop, edits):
    """edits: list of (relative file, old text, new text).  Returns (status, exit code, output)
    status 'skipped' when an anchor text is not found exactly once on the current tree."""
    tmp = tempfile.mkdtemp(prefix="pepit_sa_")
    try:
        _copy_pkg(tmp)
        for ed in edits:
            if ed[0] == "@patch":
                r = subprocess.run(["patch", "-p1", "-s", "-i", ed[1]], cwd=tmp, capture_output=True, text=True)
                if r.returncode != 0:
                    return "skipped", None, "patch %s does not apply to the current tree" % os.path.basename(os.path.dirname(ed[1]))
                continue
            rel, old, new = ed
            p = os.path.join(tmp, rel)
            if not os.path.exists(p):
                return "skipped", None, "file %s missing" % rel
            with open(p, encoding="utf-8") as fh:
                s = fh.read()
            if s.count(old) != 1:
                return "skipped", None, "anchor text of the variant occurs %d times in %s" % (s.count(old), rel)
            with open(p, "w", encoding="utf-8") as fh:
                fh.write(s.replace(old, new))
        env = dict(os.environ)
        env["VERIF_REPO"] = tmp
        env["VERIF_TIER"] = "quick"
        env["VERIF_NO_EVIDENCE"] = "1"
        r = subprocess.run([sys.executable, "-B", "-m", "sa.main", prop, "--tier", "quick"], cwd=VERIF, env=env,
                           capture_output=True, text=True, timeout=300)
        return "ran", r.returncode, r.stdout + r.stderr
    finally:
        shutil.rmtree(tmp, ignore_errors=True)


def run_selftest(ctx, seed, variants):
    """variants: list of dicts {id, edits, expect: 'fire'|'silent', rule (substring expected in the report)}."""
    import random
    order = list(variants)
    random.Random(seed).shuffle(order)
    results = []

    def one(v):
        status, code, out = run_variant(ctx.prop, v["edits"])
        return v, status, code, out

    with ThreadPoolExecutor(max_workers=16) as ex:
        for v, status, code, out in ex.map(one, order):
            if status == "skipped":
                results.append({"variant": v["id"], "result": "skipped", "why": out})
                continue
            if v["expect"] == "fire":
                ok = code == 1 and "VIOLATION property=%s" % ctx.prop in out and (not v.get("rule") or ("FAIL " + v["rule"]) in out)
            else:
                ok = code == 0 and "VIOLATION" not in out
            results.append({"variant": v["id"], "expect": v["expect"], "rule": v.get("rule"), "exit": code, "result": "ok" if ok else "WRONG"})
            if not ok:
                tail = "\n".join(out.strip().splitlines()[-12:])
                results[-1]["output"] = tail
    bad = [r for r in results if r["result"] == "WRONG"]
    ran = [r for r in results if r["result"] != "skipped"]
    ctx.extra = dict(getattr(ctx, "extra", None) or {})
    ctx.extra["selftest"] = {"variants": len(variants), "ran": len(ran), "skipped": len(results) - len(ran),
                             "must_fire": sum(1 for v in variants if v["expect"] == "fire"),
                             "must_stay_silent": sum(1 for v in variants if v["expect"] == "silent"),
                             "wrong": bad, "results": sorted(results, key=lambda r: r["variant"])}
    ctx.count("selftest variants", len(ran))
    if bad:
        raise AnalysisError("self-test of the checker failed on %d variant(s): %s" % (len(bad), ", ".join(b["variant"] for b in bad)))
