"""Inlining of private helper functions before analysis (summaries by inlining, bound: 3 levels, helpers of at most 60 statements).

A refactoring that extracts a few statements into a private helper (or a small pre-existing helper) must not blind the rules, which
are written per function.  Calls `self._h(...)`, `Cls._h(...)`, `_h(...)` of a private, non-recursive helper defined in the core package
are replaced, in the caller's syntax tree, by the helper's body with parameters substituted and locals renamed; `return e` statements in
tail position are replaced by the continuation of the call site (`x = e`, `x += e`, `return e`, or nothing).  Helpers that the rules
themselves address by name are left in place.  Inlined nodes take the line of the call site plus a small fraction, so that ordering
comparisons by line keep working and reports point at the call site."""
import ast
from .model import clone

# private names the rules resolve as anchors of their own (never inlined)
ANCHORS = {
    "_solve_with_wrapper", "_eval_points_and_function_values", "_is_already_evaluated_on_point",
    "_separate_leaf_functions_regarding_their_need_on_point", "_recover_dual_values", "_expression_to_solver",
    "_get_Gram_from_mosek", "_streamprinter", "_reset_classes",
}
MAX_STMTS = 60


def _is_private(name):
    return name.startswith("_") and not (name.startswith("__") and name.endswith("__"))


def _decorators(fn):
    return {d.id if isinstance(d, ast.Name) else getattr(d, "attr", "") for d in fn.decorator_list}


def _count_stmts(fn):
    return sum(1 for n in ast.walk(fn) if isinstance(n, ast.stmt)) - 1


def _tail_ok(stmts):
    """Every Return of the statement list is in tail position (nothing can run after it inside this list)."""
    if not stmts:
        return True
    for s in stmts[:-1]:
        if any(isinstance(n, ast.Return) for n in ast.walk(s)):
            return False
    last = stmts[-1]
    if isinstance(last, (ast.Return, ast.Raise)):
        return True
    if isinstance(last, ast.If):
        return _tail_ok(last.body) and _tail_ok(last.orelse)
    return not any(isinstance(n, ast.Return) for n in ast.walk(last))


def _has_value_return(fn):
    return any(isinstance(n, ast.Return) and n.value is not None for n in ast.walk(fn))


def _all_paths_return(stmts):
    if not stmts:
        return False
    last = stmts[-1]
    if isinstance(last, (ast.Return, ast.Raise)):
        return True
    if isinstance(last, ast.If):
        return bool(last.orelse) and _all_paths_return(last.body) and _all_paths_return(last.orelse)
    return False


def _ends_with_exit(stmts):
    return bool(stmts) and isinstance(stmts[-1], (ast.Return, ast.Raise))


def nest_guards(stmts):
    """`if c: A; return x` followed by REST  ==  `if c: A; return x  else: REST` -- makes guard-clause returns tail-position returns."""
    out = []
    for i, s in enumerate(stmts):
        if isinstance(s, ast.If) and stmts[i + 1:] and (_ends_with_exit(s.body) and not s.orelse):
            s2 = clone(s)
            s2.body = nest_guards(s2.body)
            s2.orelse = nest_guards([clone(x) for x in stmts[i + 1:]])
            out.append(s2)
            return out
        if isinstance(s, ast.If):
            s2 = clone(s)
            s2.body = nest_guards(s2.body)
            s2.orelse = nest_guards(s2.orelse)
            out.append(s2)
        else:
            out.append(s)
    return out


def inlinable(fn):
    if not _is_private(fn.name) or fn.name in ANCHORS:
        return False
    decs = _decorators(fn)
    if decs - {"staticmethod"}:
        return False
    if fn.args.vararg or fn.args.kwarg or fn.args.kwonlyargs:
        return False
    for n in ast.walk(fn):
        if isinstance(n, (ast.FunctionDef, ast.Lambda, ast.ClassDef, ast.Yield, ast.YieldFrom, ast.Global, ast.Nonlocal)) and n is not fn:
            return False
        if isinstance(n, ast.Call) and isinstance(n.func, (ast.Name, ast.Attribute)) and (getattr(n.func, "id", None) == fn.name or getattr(n.func, "attr", None) == fn.name):
            return False
    if _count_stmts(fn) > MAX_STMTS:
        return False
    body = nest_guards(fn.body)
    if not _tail_ok(body):
        return False
    if _has_value_return(fn) and not _all_paths_return(body):
        return False
    return True


class _Subst(ast.NodeTransformer):
    def __init__(self, mapping, renames):
        self.mapping, self.renames = mapping, renames

    def visit_Name(self, node):
        if node.id in self.mapping and isinstance(node.ctx, ast.Load):
            return clone(self.mapping[node.id])
        if node.id in self.renames:
            return ast.copy_location(ast.Name(id=self.renames[node.id], ctx=node.ctx), node)
        return node


def _simple(e):
    while isinstance(e, ast.Attribute):
        e = e.value
    return isinstance(e, (ast.Name, ast.Constant))


class Inliner:
    def __init__(self, repo):
        self.repo = repo
        self.counter = 0
        self.inlined = []          # (caller qualname, helper name, line)

    def helper_for(self, caller, call):
        f = call.func
        cls = getattr(caller, "_cls", None)
        mod = caller._module
        target = None
        recv = None
        if isinstance(f, ast.Attribute) and _is_private(f.attr):
            if isinstance(f.value, ast.Name) and f.value.id == "self" and cls is not None:
                target = cls.find_method(f.attr)
                recv = f.value
            elif isinstance(f.value, ast.Name):
                from .model import ClassInfo
                r = self.repo.resolve_name(mod, f.value.id)
                if isinstance(r, ClassInfo):
                    target = r.find_method(f.attr)
                    if target is not None and "staticmethod" not in _decorators(target):
                        target = None
        elif isinstance(f, ast.Name) and _is_private(f.id):
            r = self.repo.resolve_name(mod, f.id)
            if isinstance(r, ast.FunctionDef) and getattr(r, "_cls", None) is None:
                target = r
        if target is None or target is caller or not inlinable(target) or target.name in getattr(self, "blocked", ()):
            return None, None
        if any(isinstance(a, ast.Starred) for a in call.args) or any(k.arg is None for k in call.keywords):
            return None, None
        return target, recv

    def build(self, caller, stmt, call, helper, recv, cont):
        """Statements replacing `stmt`; cont(e) builds the continuation statement(s) for a returned expression e (None for no value)."""
        self.counter += 1
        tag = "__i%d" % self.counter
        params = [a.arg for a in helper.args.posonlyargs + helper.args.args]
        is_static = "staticmethod" in _decorators(helper)
        bound = {}
        if getattr(helper, "_cls", None) is not None and not is_static:
            if recv is None:
                return None
            bound[params[0]] = recv
            params = params[1:]
        args = list(call.args)
        if len(args) > len(params):
            return None
        given = dict(zip(params, args))
        for k in call.keywords:
            if k.arg not in params or k.arg in given:
                return None
            given[k.arg] = k.value
        defaults = helper.args.defaults
        for p, d in zip(params[len(params) - len(defaults):], defaults):
            given.setdefault(p, d)
        if set(given) != set(params):
            return None
        assigned = {n.id for n in ast.walk(helper) if isinstance(n, ast.Name) and isinstance(n.ctx, (ast.Store, ast.Del))}
        pre = []
        mapping = dict(bound)
        for p in params:
            a = given[p]
            if _simple(a) and p not in assigned:
                mapping[p] = a
            else:
                nm = p + tag
                pre.append(ast.Assign(targets=[ast.Name(id=nm, ctx=ast.Store())], value=clone(a)))
                mapping[p] = ast.Name(id=nm, ctx=ast.Load())
                if p in assigned:
                    # later stores to the parameter go to the same fresh local
                    pass
        renames = {n: n + tag for n in assigned if n not in params}
        for p in params:
            if p in assigned:
                renames[p] = p + tag
                mapping.pop(p, None)
        body = nest_guards([clone(s) for s in helper.body])
        body = [_Subst(mapping, renames).visit(s) for s in body]

        had_value_flag = [False]

        def replace_returns(stmts):
            out = []
            for s in stmts:
                if isinstance(s, ast.Return):
                    out.extend(cont(s.value) if (s.value is not None or not had_value_flag[0]) and s.value is not None else ([] if not had_value_flag[0] else cont(None)))
                elif isinstance(s, ast.If):
                    s.body = replace_returns(s.body) or [ast.Pass()]
                    s.orelse = replace_returns(s.orelse)
                    out.append(s)
                else:
                    out.append(s)
            return out

        had_value = _has_value_return(helper)
        had_value_flag[0] = had_value
        body = replace_returns(body)
        if not had_value:
            body = body + cont(None)
        new = pre + body
        # positions: the line of the call site plus an increasing fraction
        k = 0
        for s in new:
            for n in ast.walk(s):
                k += 1
                if hasattr(n, "lineno") or isinstance(n, (ast.stmt, ast.expr)):
                    n.lineno = stmt.lineno + k * 1e-5
                    n.col_offset = getattr(stmt, "col_offset", 0)
                    n.end_lineno = n.lineno
                    n.end_col_offset = 0
        self.inlined.append(("%s" % caller.name, helper.name, int(stmt.lineno)))
        return new

    def hoist_args(self, caller, s):
        """`obj.m(..., self._h(x), ...)` / `y = f(..., kw=self._h(x))`  ->  `tmp = self._h(x); obj.m(..., tmp, ...)` / `y = f(..., kw=tmp)`
        (only when the arguments evaluated before the helper call are free of calls, so that the order of effects is kept)"""
        if isinstance(s, ast.Expr) and isinstance(s.value, ast.Call):
            outer = s.value
        elif isinstance(s, ast.Assign) and isinstance(s.value, ast.Call):
            outer = s.value
        else:
            return None
        slots = [("arg", k, a) for k, a in enumerate(outer.args)] + [("kw", k, kw.value) for k, kw in enumerate(outer.keywords)]
        for kind, k, a in slots:
            if isinstance(a, ast.Call):
                helper, recv = self.helper_for(caller, a)
                if helper is not None:
                    self.counter += 1
                    tmp = "arg__h%d" % self.counter
                    pre = ast.Assign(targets=[ast.Name(id=tmp, ctx=ast.Store())], value=a)
                    ast.copy_location(pre, s)
                    for n in ast.walk(pre):
                        if not hasattr(n, "lineno"):
                            n.lineno, n.col_offset = s.lineno, 0
                    new_stmt = clone(s)
                    new_outer = new_stmt.value
                    ref = ast.Name(id=tmp, ctx=ast.Load(), lineno=s.lineno, col_offset=0)
                    if kind == "arg":
                        new_outer.args[k] = ref
                    else:
                        new_outer.keywords[k].value = ref
                    ast.copy_location(new_stmt, s)
                    new_stmt.lineno = s.lineno + 0.5
                    for n in ast.walk(new_stmt):
                        n.lineno = s.lineno + 0.5
                    return [pre, new_stmt]
            if any(isinstance(n, ast.Call) for n in ast.walk(a)):
                return None           # an earlier argument has effects of its own: leave the statement alone
        return None

    def process_block(self, caller, stmts):
        changed = False
        out = []
        todo = list(stmts)
        while todo:
            s = todo.pop(0)
            h = self.hoist_args(caller, s)
            if h is not None:
                todo = h + todo
                changed = True
                continue
            rep = None
            call = None
            if isinstance(s, ast.Expr) and isinstance(s.value, ast.Call):
                call = s.value
                cont = lambda e: ([] if e is None or isinstance(e, (ast.Name, ast.Constant)) else [ast.Expr(value=e)])
            elif isinstance(s, ast.Assign) and isinstance(s.value, ast.Call):
                call = s.value
                tg = s.targets

                def cont(e, tg=tg):
                    if e is not None and len(tg) == 1 and isinstance(tg[0], ast.Tuple) and isinstance(e, ast.Tuple) and len(e.elts) == len(tg[0].elts) \
                            and not any(isinstance(x, ast.Starred) for x in list(e.elts) + list(tg[0].elts)):
                        # (a, b, ...) = (x, y, ...) with simple right-hand sides: element-wise copies
                        return [ast.Assign(targets=[clone(t)], value=clone(v)) for t, v in zip(tg[0].elts, e.elts)]
                    return [ast.Assign(targets=clone(tg), value=e if e is not None else ast.Constant(value=None))]
            elif isinstance(s, ast.AugAssign) and isinstance(s.value, ast.Call):
                call = s.value
                cont = (lambda e, s=s: [ast.AugAssign(target=clone(s.target), op=s.op, value=e if e is not None else ast.Constant(value=None))])
            elif isinstance(s, ast.Return) and isinstance(s.value, ast.Call):
                call = s.value
                cont = (lambda e: [ast.Return(value=e)])
            if call is not None:
                helper, recv = self.helper_for(caller, call)
                if helper is not None:
                    rep = self.build(caller, s, call, helper, recv, cont)
            if rep is not None:
                out.extend(rep)
                changed = True
                continue
            for field in ("body", "orelse", "finalbody"):
                sub = getattr(s, field, None)
                if isinstance(sub, list) and sub and isinstance(sub[0], ast.stmt) and not isinstance(s, (ast.FunctionDef, ast.ClassDef)):
                    new, ch = self.process_block(caller, sub)
                    if ch:
                        setattr(s, field, new)
                        changed = True
            if isinstance(s, ast.Try):
                for h in s.handlers:
                    new, ch = self.process_block(caller, h.body)
                    if ch:
                        h.body = new
                        changed = True
            out.append(s)
        return out, changed


def _inlinable_position(call):
    """The call is the whole value of a simple statement, or a direct positional argument of a statement-level call."""
    par = getattr(call, "_parent", None)
    if isinstance(par, ast.Expr):
        return True
    if isinstance(par, (ast.Assign, ast.AugAssign, ast.Return)) and par.value is call:
        return True
    if isinstance(par, ast.Call) and any(a is call for a in par.args) and _stmt_level_call(par):
        return True
    if isinstance(par, ast.keyword) and isinstance(getattr(par, "_parent", None), ast.Call) and _stmt_level_call(par._parent):
        return True
    return False


def _stmt_level_call(c):
    pp = getattr(c, "_parent", None)
    return isinstance(pp, ast.Expr) or (isinstance(pp, ast.Assign) and pp.value is c)


def _expression_helper(fn):
    """A private helper whose body is a single `return <expression>` (pure formula): can be inlined at any call position."""
    if not _is_private(fn.name) or fn.name in ANCHORS or (_decorators(fn) - {"staticmethod"}):
        return None
    if fn.args.vararg or fn.args.kwarg or fn.args.kwonlyargs or fn.args.defaults:
        return None
    body = [b for b in fn.body if not isinstance(b, (ast.Pass, ast.Import, ast.ImportFrom))]
    if len(body) == 1 and isinstance(body[0], ast.Return) and body[0].value is not None:
        v = body[0].value
        if not any(isinstance(n, (ast.Lambda, ast.Yield, ast.YieldFrom, ast.Await, ast.NamedExpr)) for n in ast.walk(v)):
            return v
    return None


class _ExprInliner(ast.NodeTransformer):
    def __init__(self, repo, caller, log):
        self.repo, self.caller, self.log = repo, caller, log

    def visit_Call(self, node):
        self.generic_visit(node)
        f = node.func
        target, recv = None, None
        cls = getattr(self.caller, "_cls", None)
        if isinstance(f, ast.Name) and _is_private(f.id):
            r = self.repo.resolve_name(self.caller._module, f.id)
            if isinstance(r, ast.FunctionDef) and getattr(r, "_cls", None) is None:
                target = r
        elif isinstance(f, ast.Attribute) and _is_private(f.attr) and isinstance(f.value, ast.Name) and f.value.id == "self" and cls is not None:
            target = cls.find_method(f.attr)
            recv = f.value
        if target is None or target is self.caller:
            return node
        expr = _expression_helper(target)
        if expr is None or node.keywords or any(isinstance(a, ast.Starred) for a in node.args):
            return node
        params = [a.arg for a in target.args.posonlyargs + target.args.args]
        mapping = {}
        if getattr(target, "_cls", None) is not None and "staticmethod" not in _decorators(target):
            if recv is None:
                return node
            mapping[params[0]] = recv
            params = params[1:]
        if len(params) != len(node.args):
            return node
        for p_, a in zip(params, node.args):
            uses = sum(1 for n in ast.walk(expr) if isinstance(n, ast.Name) and n.id == p_)
            if not _simple(a) and uses > 1:
                return node          # a compound argument would be evaluated several times
            mapping[p_] = a
        new = _Subst(mapping, {}).visit(clone(expr))
        for n in ast.walk(new):
            n.lineno = getattr(node, "lineno", 0)
            n.col_offset = getattr(node, "col_offset", 0)
            n.end_lineno = n.lineno
            n.end_col_offset = 0
        self.log.append((self.caller.name, target.name, int(getattr(node, "lineno", 0))))
        return new


    def visit_Attribute(self, node):
        """`self._p` where `_p` is a private read-only property whose body is a single `return <expression>`: that expression"""
        self.generic_visit(node)
        cls = getattr(self.caller, "_cls", None)
        if not (isinstance(node.ctx, ast.Load) and isinstance(node.value, ast.Name) and node.value.id == "self" and cls is not None and _is_private(node.attr)):
            return node
        target = cls.find_method(node.attr)
        if target is None or target is self.caller or _decorators(target) != {"property"}:
            return node
        params = [a.arg for a in target.args.posonlyargs + target.args.args]
        body = [b for b in target.body if not isinstance(b, (ast.Pass, ast.Import, ast.ImportFrom))]
        if len(params) != 1 or len(body) != 1 or not isinstance(body[0], ast.Return) or body[0].value is None:
            return node
        if any(isinstance(n, (ast.Lambda, ast.Yield, ast.YieldFrom, ast.Await, ast.NamedExpr)) for n in ast.walk(body[0].value)):
            return node
        new = _Subst({params[0]: node.value}, {}).visit(clone(body[0].value))
        for n in ast.walk(new):
            n.lineno = getattr(node, "lineno", 0)
            n.col_offset = getattr(node, "col_offset", 0)
            n.end_lineno = n.lineno
            n.end_col_offset = 0
        self.log.append((self.caller.name, target.name, int(getattr(node, "lineno", 0))))
        return new


def inline_private_helpers(repo, passes=3):
    inl = Inliner(repo)
    # pure formula helpers first, at any call position
    for fn in list(repo.all_functions()):
        if getattr(fn, "_module", None) is None:
            continue
        x = _ExprInliner(repo, fn, inl.inlined)
        for i, st in enumerate(fn.body):
            fn.body[i] = x.visit(st)
    if inl.inlined:
        for m in repo.modules.values():
            from .model import set_parents
            set_parents(m.tree)
    # all-or-nothing: a helper with a call site that cannot be inlined (e.g. inside a comparison or a comprehension) stays a unit of its own
    blocked = set()
    for fn in repo.all_functions():
        if getattr(fn, "_module", None) is None:
            continue
        for n in ast.walk(fn):
            if isinstance(n, ast.Call):
                nm = n.func.attr if isinstance(n.func, ast.Attribute) else (n.func.id if isinstance(n.func, ast.Name) else None)
                if nm and _is_private(nm) and not _inlinable_position(n):
                    blocked.add(nm)
    inl.blocked = blocked
    for _ in range(passes):
        any_change = False
        for fn in list(repo.all_functions()):
            if getattr(fn, "_module", None) is None:
                continue
            new, ch = inl.process_block(fn, fn.body)
            if ch:
                fn.body = new
                any_change = True
        if not any_change:
            break
    # a helper all of whose uses were inlined is no longer a unit of analysis of its own
    helpers = {h for (_c, h, _l) in inl.inlined}
    if helpers:
        used = set()
        for fn in repo.all_functions():
            for n in ast.walk(fn):
                if isinstance(n, ast.Attribute) and n.attr in helpers:
                    used.add(n.attr)
                if isinstance(n, ast.Name) and n.id in helpers and isinstance(n.ctx, ast.Load):
                    used.add(n.id)
        for m in repo.modules.values():
            for name in list(m.functions):
                if name in helpers and name not in used:
                    del m.functions[name]
            for c in m.classes.values():
                for name in list(c.methods):
                    if name in helpers and name not in used:
                        del c.methods[name]
    return inl.inlined
