"""Path enumeration of a function over a finite abstract domain, with local aliases resolved.

PathEval explores the structured paths of one function.  Branch tests are decided by a callback `decide(test)` that
receives the test with every *single-assignment local alias* substituted by its defining expression, so that

    kind = constraint.equality_or_inequality            dual = self._dual_variable_value
    if kind != 'inequality' and kind != 'equality': ...  if dual is not None: return dual

are judged exactly like the un-hoisted spelling.  `decide` returns True / False, or None when the test is outside the
finite domain (both arms are then explored).  Each path yields its outcome (return / raise / fall-through), the returned
expression (aliases substituted, and a local that was stored into an attribute is reported as that attribute), the
exception type, and the trace of simple statements executed -- enough for the rules to ask "which comparison is appended
for this sense", "does an unsolved leaf raise ValueError", "is the value recomputed before it is returned"."""
import ast
from .model import src, dotted, call_name, AnalysisError, clone


class Path:
    def __init__(self, kind, value, exc, trace, stored):
        self.kind, self.value, self.exc, self.trace, self.stored = kind, value, exc, trace, stored

    @property
    def value_text(self):
        return None if self.value is None else " ".join(src(self.value).split())

    def __repr__(self):
        return "<%s %s>" % (self.kind, self.exc if self.kind == "raise" else self.value_text)


class _Sub(ast.NodeTransformer):
    def __init__(self, aliases):
        self.aliases = aliases

    def visit_Name(self, node):
        if isinstance(node.ctx, ast.Load) and node.id in self.aliases:
            return clone(self.aliases[node.id])
        return node


def exc_name(r):
    e = r.exc
    if e is None:
        return "<re-raise>"
    if isinstance(e, ast.Call):
        e = e.func
    return dotted(e) or src(e)


class PathEval:
    MAX_PATHS = 4000

    def __init__(self, fn, decide, alias_ok=None, loop_mode="both"):
        self.fn = fn
        self.decide = decide
        self.loop_mode = loop_mode
        self.paths = []
        # single-assignment locals bound to a side-effect-free expression are aliases of that expression
        counts = {}
        for n in ast.walk(fn):
            if isinstance(n, ast.Name) and isinstance(n.ctx, ast.Store):
                counts[n.id] = counts.get(n.id, 0) + 1
        self.single = {k for k, v in counts.items() if v == 1}
        self.alias_ok = alias_ok or _pure

    def subst(self, node, aliases):
        if not aliases:
            return node
        return _Sub(aliases).visit(clone(node))

    def run(self):
        end = lambda a, t, s: self.paths.append(Path("fall", None, None, t, s))
        self._block(self.fn.body, {}, [], {}, end, end)
        return self.paths

    # continuation-passing exploration: k(aliases, trace, stored) is called when control falls out of the block
    def _block(self, stmts, aliases, trace, stored, k, lk):
        """k: continuation when the block falls through; lk: continuation of `break` / `continue` (the statement after the innermost loop)"""
        if len(self.paths) > self.MAX_PATHS:
            raise AnalysisError("path explosion in %s" % self.fn.name)
        if not stmts:
            return k(aliases, trace, stored)
        s, rest = stmts[0], stmts[1:]
        nxt = lambda a, t, st: self._block(rest, a, t, st, k, lk)
        if isinstance(s, ast.Return):
            v = s.value
            if v is not None:
                if isinstance(v, ast.Name) and v.id in stored:
                    v = stored[v.id]
                else:
                    v = self.subst(v, aliases)
            self.paths.append(Path("return", v, None, trace + [s], stored))
            return
        if isinstance(s, ast.Raise):
            self.paths.append(Path("raise", None, exc_name(s), trace + [s], stored))
            return
        if isinstance(s, ast.If):
            t = self.subst(s.test, aliases)
            d = self.decide(t)
            if d is not False:
                self._block(s.body, aliases, trace + [("test", s, True)], stored, nxt, lk)
            if d is not True:
                self._block(s.orelse, aliases, trace + [("test", s, False)], stored, nxt, lk)
            return
        if isinstance(s, (ast.For, ast.While)):
            # zero iterations, or one representative iteration (break / continue end the iteration)
            if self.loop_mode == "both":
                nxt(aliases, trace, stored)
            self._block(s.body, aliases, trace + [("loop", s)], stored, nxt, nxt)
            return
        if isinstance(s, ast.Try):
            # body, then the else clause when the body completes; a handler instead when it does not; the finally clause in both cases
            fin = (lambda a, t, st: self._block(s.finalbody, a, t, st, nxt, lk)) if s.finalbody else nxt
            after_body = (lambda a, t, st: self._block(s.orelse, a, t, st, fin, lk)) if s.orelse else fin
            self._block(s.body, aliases, trace, stored, after_body, lk)
            for h in s.handlers:
                self._block(h.body, aliases, trace + [("handler", h)], stored, fin, lk)
            return
        if isinstance(s, ast.With):
            self._block(s.body, aliases, trace, stored, nxt, lk)
            return
        if isinstance(s, (ast.Break, ast.Continue)):
            return lk(aliases, trace + [s], stored)
        if isinstance(s, ast.Assert):
            t = self.subst(s.test, aliases)
            d = self.decide(t)
            if d is not True:
                self.paths.append(Path("raise", None, "AssertionError", trace + [s], stored))
            if d is not False:
                nxt(aliases, trace + [s], stored)
            return
        # simple statement
        a2, st2 = aliases, stored
        if isinstance(s, ast.Assign) and len(s.targets) == 1:
            tg = s.targets[0]
            if isinstance(tg, ast.Name) and tg.id in self.single and self.alias_ok(s.value):
                a2 = dict(aliases)
                a2[tg.id] = self.subst(s.value, aliases)
            elif isinstance(tg, ast.Attribute) and isinstance(s.value, ast.Name):
                # a local stored into an attribute: returning the local is returning the attribute
                st2 = dict(stored)
                st2[s.value.id] = tg
        nxt(a2, trace + [s], st2)


def _pure(e):
    """Expressions that may be re-read at the use site: names, attributes, subscripts, constants, tuples of those, comparisons,
    boolean combinations, and calls of a few observers (len, type, isinstance, bool, get_is_leaf)."""
    for n in ast.walk(e):
        if isinstance(n, ast.Call):
            if call_name(n) not in ("len", "type", "isinstance", "bool", "get_is_leaf", "get_nb_blocks", "str", "lower"):
                return False
        elif isinstance(n, (ast.Lambda, ast.ListComp, ast.DictComp, ast.SetComp, ast.GeneratorExp, ast.Await, ast.Yield, ast.NamedExpr)):
            return False
    return True


def bool_decider(atom):
    """Builds decide() from a function atom(test) -> True/False/None on atomic tests; and/or/not are combined three-valued."""
    def decide(t):
        a = atom(t)
        if a is not None:
            return a
        if isinstance(t, ast.UnaryOp) and isinstance(t.op, ast.Not):
            v = decide(t.operand)
            return None if v is None else (not v)
        if isinstance(t, ast.BoolOp):
            vals = [decide(v) for v in t.values]
            if isinstance(t.op, ast.And):
                if any(v is False for v in vals):
                    return False
                return True if all(v is True for v in vals) else None
            if any(v is True for v in vals):
                return True
            return False if all(v is False for v in vals) else None
        if isinstance(t, ast.Call) and call_name(t) == "bool" and len(t.args) == 1:
            return decide(t.args[0])
        return None
    return decide


def literal_test(t, subject_text, value):
    """Decide `<subject> == 'lit'`, `!=`, `in (...)`, `not in (...)`, `.startswith('lit')` for a subject given by its source text."""
    def is_subj(n):
        return " ".join(src(n).split()) == subject_text
    if isinstance(t, ast.Compare) and len(t.ops) == 1:
        l, op, r = t.left, t.ops[0], t.comparators[0]
        if isinstance(op, (ast.Eq, ast.NotEq)):
            for a, b in ((l, r), (r, l)):
                if is_subj(a) and isinstance(b, ast.Constant) and isinstance(b.value, str):
                    eq = value == b.value
                    return eq if isinstance(op, ast.Eq) else not eq
        if isinstance(op, (ast.In, ast.NotIn)) and is_subj(l) and isinstance(r, (ast.Tuple, ast.List, ast.Set)) \
                and all(isinstance(e, ast.Constant) for e in r.elts):
            inn = value in [e.value for e in r.elts]
            return inn if isinstance(op, ast.In) else not inn
    if isinstance(t, ast.Call) and call_name(t) == "startswith" and isinstance(t.func, ast.Attribute) and is_subj(t.func.value) \
            and t.args and isinstance(t.args[0], ast.Constant):
        return isinstance(value, str) and value.startswith(t.args[0].value)
    return None


def string_literals_compared(fn, subject_text, aliases_of=None):
    """String literals the function compares the subject (or a single-assignment alias of it) with."""
    names = {subject_text}
    for s in ast.walk(fn):
        if isinstance(s, ast.Assign) and len(s.targets) == 1 and isinstance(s.targets[0], ast.Name) and " ".join(src(s.value).split()) == subject_text:
            names.add(s.targets[0].id)
    lits = set()
    for t in ast.walk(fn):
        if isinstance(t, ast.Compare) and len(t.ops) == 1:
            sides = [t.left, t.comparators[0]]
            if any(" ".join(src(x).split()) in names for x in sides):
                for x in sides:
                    if isinstance(x, ast.Constant) and isinstance(x.value, str):
                        lits.add(x.value)
                    if isinstance(x, (ast.Tuple, ast.List, ast.Set)):
                        lits.update(e.value for e in x.elts if isinstance(e, ast.Constant) and isinstance(e.value, str))
        if isinstance(t, ast.Call) and call_name(t) == "startswith" and isinstance(t.func, ast.Attribute) and " ".join(src(t.func.value).split()) in names \
                and t.args and isinstance(t.args[0], ast.Constant):
            lits.add(t.args[0].value + "*")
    return lits, names


# ---------------------------------------------------------------------------------------------------
# option dispatch: outcomes of a statement list for one value of an option, other tests being free
# ---------------------------------------------------------------------------------------------------
def option_outcomes(stmts, decide_subject, aliases=None):
    """Set of (completion, touched): completion in next/return/raise/break/continue; touched = some test on the option was decided on the path."""
    aliases = dict(aliases or {})
    cur = {("next", False)}
    out = set()
    for s in stmts:
        nxt = set()
        live = [t for (k, t) in cur if k == "next"]
        out |= {(k, t) for (k, t) in cur if k != "next"}
        if not live:
            cur = set()
            break
        r = _stmt_outcomes(s, decide_subject, aliases)
        for touched0 in set(live):
            for (k, t) in r:
                nxt.add((k, t or touched0))
        cur = nxt
    return out | cur


def _stmt_outcomes(s, decide_subject, aliases):
    if isinstance(s, ast.Return):
        return {("return", False)}
    if isinstance(s, ast.Raise):
        return {("raise", False)}
    if isinstance(s, ast.Break):
        return {("break", False)}
    if isinstance(s, ast.Continue):
        return {("continue", False)}
    if isinstance(s, ast.Assign) and len(s.targets) == 1 and isinstance(s.targets[0], ast.Name) and _pure(s.value):
        aliases[s.targets[0].id] = _Sub(aliases).visit(clone(s.value))
        return {("next", False)}
    if isinstance(s, ast.If):
        t = _Sub(aliases).visit(clone(s.test))
        d = decide_subject(t)
        res = set()
        if d is not False:
            for (k, tt) in option_outcomes(s.body, decide_subject, aliases):
                res.add((k, tt or d is not None))
        if d is not True:
            for (k, tt) in (option_outcomes(s.orelse, decide_subject, aliases) if s.orelse else {("next", False)}):
                res.add((k, tt or d is not None))
        return res
    if isinstance(s, (ast.For, ast.While)):
        body = option_outcomes(s.body, decide_subject, aliases)
        res = {("next", False)}
        for (k, t) in body:
            if k in ("next", "continue", "break"):
                res.add(("next", t))
            else:
                res.add((k, t))
        return res
    if isinstance(s, ast.Try):
        res = set(option_outcomes(list(s.body) + list(s.orelse), decide_subject, aliases))
        for h in s.handlers:
            res |= option_outcomes(h.body, decide_subject, aliases)
        if s.finalbody:
            out = set()
            for (k0, t0) in res:
                for (k1, t1) in option_outcomes(s.finalbody, decide_subject, aliases):
                    out.add((k0 if k1 == "next" else k1, t0 or t1))
            res = out
        return res
    if isinstance(s, ast.With):
        return option_outcomes(s.body, decide_subject, aliases)
    if isinstance(s, ast.Assert):
        return {("next", False), ("raise", False)}
    return {("next", False)}
