"""Obligations, verdicts, known findings, evidence files."""
import json
import os
import time

VERIF = os.path.dirname(os.path.dirname(os.path.abspath(__file__)))


class Obligation:
    __slots__ = ("rule", "key", "ok", "msg", "where", "prop")

    def __init__(self, rule, key, ok, msg, where):
        self.rule, self.key, self.ok, self.msg, self.where = rule, key, bool(ok), msg, where

    def as_dict(self):
        return {"rule": self.rule, "construct": self.key, "ok": self.ok, "detail": self.msg, "where": self.where}


class Ctx:
    """Collects what a check analysed and what it concluded."""

    def __init__(self, prop, repo, tier="quick"):
        self.prop = prop
        self.repo = repo
        self.tier = tier
        self.obligations = []
        self.analysed = {}         # counter name -> count
        self.samples = []
        self.notes = []
        self.floors = []           # (name, measured, floor)
        self.units = set()         # functions / files consulted
        self.assumptions = []
        self.program_ok = {}
        self.program_lazy = {}          # program key -> thunk that runs the program (and sets program_ok) on demand       # key -> True: a routine was unrolled on its abstract model (sa/miniint.py) and did what is expected of it

    # an obligation is a named instance of a rule on a named construct
    def ob(self, rule, key, ok, msg="", where=""):
        self.obligations.append(Obligation(rule, key, ok, msg, where))
        return bool(ok)

    def ob_or_program(self, prog_key, rule, key, ok, msg="", where=""):
        """A structural clause about a routine that is also decided by unrolling it: recorded as it is when it holds, or when the program did not
        run / did not pass; when the clause fails although the program passed, the program decides -- the clause describes one way of writing the
        routine, the program what the routine does -- and a note is kept."""
        if not ok and prog_key not in self.program_ok and prog_key in self.program_lazy:
            self.program_lazy.pop(prog_key)()          # the program is run when a structural clause first needs it
        if ok or not self.program_ok.get(prog_key):
            return self.ob(rule, key, ok, msg, where)
        self.notes.append("%s %s: structural clause not met (%s); decided by the unrolled routine" % (rule, key, msg))
        return True

    def count(self, name, n=1):
        self.analysed[name] = self.analysed.get(name, 0) + n

    def floor(self, name, measured, floor):
        """An instance count that must not fall below what was confirmed by hand on the reference tree."""
        self.floors.append((name, measured, floor))

    def sample(self, s):
        if len(self.samples) < 40:
            self.samples.append(s)

    def unit(self, fn_or_name):
        self.units.add(fn_or_name if isinstance(fn_or_name, str) else getattr(fn_or_name, "name", str(fn_or_name)))


def load_known():
    p = os.path.join(VERIF, "known_findings.json")
    with open(p) as fh:
        data = json.load(fh)
    return data


def triage(ctx, known):
    """Split failed obligations into known findings and violations."""
    listed = [(f["property"], f["rule"], f["construct"]) for f in known.get("findings", [])]
    viol, kf = [], []
    for o in ctx.obligations:
        if o.ok:
            continue
        if (ctx.prop, o.rule, o.key) in listed:
            kf.append(o)
        else:
            viol.append(o)
    return viol, kf


def write_evidence(ctx, level, seed, wall, violations, known_hits, explanation, trusted_base, extra=None):
    os.makedirs(os.path.join(VERIF, "evidence"), exist_ok=True)
    n_ob = len(ctx.obligations)
    n_ok = sum(1 for o in ctx.obligations if o.ok)
    distinct = len({(o.rule, o.key) for o in ctx.obligations})
    samples = list(ctx.samples)
    if not samples:
        samples = [o.as_dict() for o in ctx.obligations[:5]]
    cov = {
        "evaluations": max(n_ob, 1),
        "distinct_nontrivial": distinct,
        "rule": ("one evaluation = one obligation (a rule instantiated on a construct of the current source); "
                 "distinct = distinct (rule, construct) pairs; an obligation is non-trivial because every rule "
                 "instance is resolved from the parsed source, not from a constant table"),
        "samples": samples,
        "obligations": n_ob,
        "discharged": n_ok,
        "known_findings_reported": [o.as_dict() for o in known_hits],
        "checker_cmd": "./check %s --tier %s" % (ctx.prop, ctx.tier),
        "trusted_base": trusted_base,
        "explanation": explanation,
        "analysed": ctx.analysed,
        "floors": [{"what": n, "measured": m, "floor": f} for n, m, f in ctx.floors],
        "rules": sorted({o.rule for o in ctx.obligations}),
        "units": sorted(ctx.units)[:200],
        "source_digest": ctx.repo.digest(),
        "exhaustive": True,
        "notes": ctx.notes,
    }
    if level == "translation_validation":
        cov["programs"] = max(ctx.analysed.get("programs", 0), 1)
        cov["disagreements_checked"] = ctx.analysed.get("disagreements_checked", 0)
    if extra:
        cov.update(extra)
    ev = {
        "property_id": ctx.prop,
        "tier": ctx.tier,
        "seed": seed,
        "level": level,
        "coverage": cov,
        "assumptions": ctx.assumptions,
        "wall_s": round(wall, 3),
        "violations": len(violations),
    }
    path = os.path.join(VERIF, "evidence", "%s.json" % ctx.prop)
    with open(path, "w") as fh:
        json.dump(ev, fh, indent=1, default=str)
    return path


def write_report(ctx, violations):
    os.makedirs(os.path.join(VERIF, "out"), exist_ok=True)
    path = os.path.join(VERIF, "out", "%s.report.json" % ctx.prop)
    with open(path, "w") as fh:
        json.dump({"property": ctx.prop, "violations": [o.as_dict() for o in violations],
                   "source_digest": ctx.repo.digest(), "time": time.time()}, fh, indent=1, default=str)
    return path
